// C32 — crashes never leave files that later builds trust wrongly.
// Monitor: (a) crash-point enumeration: a dry run counts the verifhook points one build hits
// (build.*, incrementality.*, fs.writefile.*, fs.copy.entry, dircache.*), then the same build is
// repeated once per point with SIGKILL at the k-th hit; (b) SIGKILL from outside at sampled instants;
// both for a first build and for a rebuild after an edit, with and without a directory cache. After
// every kill an ordinary `plz build` must succeed and produce exactly what a clean build produces.
// (c) fs.WriteFile over an existing file, killed at each of its hook points in a child process:
// the destination must hold the complete old or the complete new content.
package c32

import (
	"fmt"
	"math/rand"
	"os"
	"os/exec"
	"path/filepath"
	"strconv"
	"strings"
	"syscall"
	"testing"
	"time"

	"github.com/thought-machine/please/src/fs"

	"verifharness/e2e"
	"verifharness/iplib"
	"verifharness/lib"
)

type scenario struct {
	sb      *e2e.Sandbox
	first   *e2e.Repo // optional: a state built (and cached) even earlier; then `state` is a return to it, served from the cache over the outputs of `before`
	before  *e2e.Repo // state built successfully before the crash (nil = crash during the first build)
	state   *e2e.Repo // state being built when the crash happens
	edit    e2e.Edit
	cache   bool
	threads int
}

// prepare puts the sandbox into the pre-crash situation: empty plz-out, or `before` fully built and
// then edited to `state`.
func (sc *scenario) prepare(bin string) error {
	lib.RemoveAll(sc.sb.Repo)
	lib.RemoveAll(sc.sb.Cache)
	if sc.before != nil {
		start := sc.before
		if sc.first != nil {
			start = sc.first
		}
		if err := start.Materialize(sc.sb.Repo); err != nil {
			return err
		}
		if res := sc.sb.Plz(bin, nil, 120*time.Second, "build", "-n", "4", "//..."); res.Exit != 0 {
			return fmt.Errorf("pre-crash build of the earliest state failed: %s", lib.Tail(res.Stderr, 300))
		}
		if sc.first != nil {
			if err := sc.before.Sync(sc.sb.Repo, sc.first); err != nil {
				return err
			}
			if res := sc.sb.Plz(bin, nil, 120*time.Second, "build", "-n", "4", "//..."); res.Exit != 0 {
				return fmt.Errorf("pre-crash build of the earlier state failed: %s", lib.Tail(res.Stderr, 300))
			}
		}
		return sc.state.Sync(sc.sb.Repo, sc.before)
	}
	return sc.state.Materialize(sc.sb.Repo)
}

func (sc *scenario) args() []string {
	return []string{"build", "-n", fmt.Sprint(sc.threads), "//..."}
}

func lastCrashPoint(trace string) string {
	evs, _ := e2e.ReadTrace(trace)
	for i := len(evs) - 1; i >= 0; i-- {
		if evs[i].Kind == "crash" {
			return evs[i].Subject
		}
	}
	return ""
}

func TestC32(t *testing.T) {
	if lib.IsChild() {
		return
	}
	iplib.Quiet()
	r := lib.Start("C32")
	defer lib.End(t, r)
	r.Level = "fault_enumeration"
	r.Rule = "case = one (scenario, crash point) pair: scenarios are generated repositories crashed during their first build or during the rebuild after a generated edit, with/without a dir cache; crash points are the hits k=1..N of the verifhook points (N from a counting dry run; every k in the thorough tier, an evenly spaced seeded subset of at most 28 per scenario in the quick tier) plus SIGKILLs from outside at seeded fractions of the measured build duration; plus fs.WriteFile killed at each of its points. Distinct by (scenario, point); non-trivial = the process really died by SIGKILL before finishing"
	r.Assumes = []string{"process death only (SIGKILL); power loss / unsynced data is not modelled", "the recovery build is compared with a from-empty cache-less build at the same path"}
	bin := lib.PlzBin(false)

	nScen := r.Pick(4, 60)
	sampled := r.Pick(6, 80)    // external kills per scenario
	maxPoints := r.Pick(28, 0) // quick tier: an evenly spaced, seeded subset of the N hook hits per scenario; thorough: every hit (0 = no cap)
	r.ForEach("scenario", nScen, 4, func(i int, rng *rand.Rand) {
		sb := e2e.NewSandbox(filepath.Join(r.Scratch(), fmt.Sprintf("s%d", i)))
		defer lib.RemoveAll(sb.Work)
		base := e2e.Generate(rng, e2e.GenOpts{Tools: rng.Intn(2) == 0, DirOuts: true, PostBuild: true, Sleep: 30, MinTargets: 4, MaxTargets: 7, MaxPkgs: 2, DepOneIn: 2})
		base.VLog = sb.VLog
		sc := &scenario{sb: sb, state: base, cache: i%2 == 1, threads: 1 + rng.Intn(3)}
		if sc.cache {
			base.Config = strings.Replace(base.Config, "[cache]\ndir =\n", "", 1) + fmt.Sprintf("\n[cache]\ndir = %s\ndircompress = %v\ndirclean = false\nworkers = 0\n", sb.Cache, rng.Intn(2) == 0)
		}
		if i%4 >= 2 || rng.Intn(2) == 0 {
			next, e := e2e.ApplyRandomEdit(rng, base, e2e.EditOpts{})
			sc.before, sc.state, sc.edit = base, next, e
		}
		if sc.before != nil && sc.cache && (i%4 == 3 || rng.Intn(2) == 0) {
			// A, B, back to A: the crashed build is the one that restores A's artifacts from the cache over B's outputs
			sc.first, sc.before, sc.state = base, sc.state, base.Clone()
		}
		kindOf := "first-build"
		if sc.first != nil {
			kindOf = "return-to-cached-state-after-" + sc.edit.Kind
		} else if sc.before != nil {
			kindOf = "rebuild-after-" + sc.edit.Kind
		}
		// Oracle for this scenario's final state.
		if err := sc.prepare(bin); err != nil {
			r.Inconclusive(fmt.Sprintf("scenario %d: %v", i, err))
			return
		}
		clean := sb.CleanBuild(bin, sc.state, nil, sc.args(), nil)
		if clean.Result.Exit != 0 {
			r.Inconclusive(fmt.Sprintf("scenario %d: clean build fails: %s", i, lib.Tail(clean.Result.Stderr, 300)))
			return
		}
		// Dry run: count hook-point hits and measure the duration.
		countFile := filepath.Join(sb.Work, "count")
		t0 := time.Now()
		res := sb.Plz(bin, []string{"VERIF_HOOK_COUNT=" + countFile}, 120*time.Second, sc.args()...)
		dur := time.Since(t0)
		if res.Exit != 0 {
			r.Inconclusive(fmt.Sprintf("scenario %d: dry run fails: %s", i, lib.Tail(res.Stderr, 300)))
			return
		}
		total := 0
		if b, err := os.ReadFile(countFile); err == nil {
			for _, l := range strings.Split(string(b), "\n") {
				if strings.HasPrefix(l, "total ") {
					total, _ = strconv.Atoi(strings.TrimPrefix(l, "total "))
				}
			}
		}
		if total == 0 {
			r.FatalInconclusive("dry run hit no hook point (hooks not compiled in?)")
			return
		}
		r.Obs("scenarios", 1)
		r.Obs("hook_points_enumerated", int64(total))

		verify := func(how, point string, k int) {
			// wait for orphaned action processes to go away, then recover
			if left := lib.WaitNoProcsUnder(sb.Repo, 15*time.Second); len(left) > 0 {
				r.Obs("orphans_killed_by_harness", int64(len(left)))
			}
			rec := sb.Plz(bin, nil, 120*time.Second, sc.args()...)
			wit := map[string]any{"scenario": kindOf, "edit": sc.edit, "cache": sc.cache, "how": how, "point": point, "k": k, "state": sc.state, "before": sc.before}
			if rec.TimedOut {
				r.Inconclusive(fmt.Sprintf("scenario %d %s: recovery build timed out", i, how))
				return
			}
			if rec.Exit != 0 {
				wit["stderr"] = lib.Tail(rec.Stderr, 1500)
				r.Violation("recovery-build-fails/"+kindOf+"/"+point, fmt.Sprintf("after a crash at %s (%s) the next plz build exits %d", point, how, rec.Exit), wit, i)
				return
			}
			got := sb.SnapshotOutputs(sc.state, sc.state.Targets)
			if d := lib.Diff(clean.Snapshot, got); len(d) > 0 {
				wit["diff"] = d
				r.Violation("stale-after-crash/"+kindOf+"/"+point, fmt.Sprintf("after a crash at %s (%s) the next plz build succeeds but outputs differ from a clean build: %s", point, how, strings.Join(d, "; ")), wit, i)
			}
		}

		// (a) enumeration of hook points
		stride, offset := 1, 0
		if maxPoints > 0 && total > maxPoints {
			stride = (total + maxPoints - 1) / maxPoints
			offset = rng.Intn(stride)
		}
		r.Obs("hook_points_crashed_at", int64((total-offset+stride-1)/stride))
		for k := 1 + offset; k <= total; k += stride {
			if err := sc.prepare(bin); err != nil {
				r.Inconclusive(fmt.Sprintf("scenario %d: %v", i, err))
				return
			}
			trace := filepath.Join(sb.Work, "trace")
			os.Remove(trace)
			res := sb.Plz(bin, []string{fmt.Sprintf("VERIF_HOOK_CRASH=#%d", k), "VERIF_TRACE=" + trace}, 120*time.Second, sc.args()...)
			point := lastCrashPoint(trace)
			died := res.Exit == 128+int(syscall.SIGKILL) && point != ""
			r.Case(fmt.Sprintf("%s|%d|hook#%d", lib.JSON(sc.state.AllFiles()), i, k), died)
			if !died {
				// schedule differences can make a run hit fewer points than the dry run: nothing to verify
				r.Obs("crash_point_not_reached", 1)
				continue
			}
			r.Obs("crashes_injected_at_hooks", 1)
			r.ObsDistinct("crash_point_names", point)
			verify(fmt.Sprintf("hook hit #%d", k), point, k)
		}
		// (b) external SIGKILL at sampled instants
		for s := 0; s < sampled; s++ {
			if err := sc.prepare(bin); err != nil {
				r.Inconclusive(fmt.Sprintf("scenario %d: %v", i, err))
				return
			}
			frac := rng.Float64()
			cmd := exec.Command(bin, append([]string{"--noupdate", "--plain_output"}, sc.args()...)...)
			cmd.Dir = sb.Repo
			cmd.Env = lib.BaseEnv(sb.Home)
			if err := cmd.Start(); err != nil {
				panic(err)
			}
			timer := time.AfterFunc(time.Duration(frac*float64(dur)), func() { syscall.Kill(cmd.Process.Pid, syscall.SIGKILL) })
			err := cmd.Wait()
			timer.Stop()
			killed := false
			if ee, ok := err.(*exec.ExitError); ok {
				if ws, ok := ee.Sys().(syscall.WaitStatus); ok && ws.Signaled() && ws.Signal() == syscall.SIGKILL {
					killed = true
				}
			}
			r.Case(fmt.Sprintf("%s|%d|ext#%d", lib.JSON(sc.state.AllFiles()), i, s), killed)
			if !killed {
				r.Obs("external_kill_too_late", 1)
				continue
			}
			r.Obs("crashes_injected_externally", 1)
			verify(fmt.Sprintf("external SIGKILL at %.0f%% of %v", frac*100, dur.Round(time.Millisecond)), "external-sigkill", s)
		}
		if r.WantSample() {
			r.Sample(map[string]any{"scenario": kindOf, "cache": sc.cache, "hook_hits": total, "targets": len(sc.state.Targets), "dry_run_ms": dur.Milliseconds()})
		}
	})

	// (c) fs.WriteFile killed at each of its points
	wf := filepath.Join(r.Scratch(), "writefile")
	os.MkdirAll(wf, 0o755)
	points := []string{"fs.writefile.created", "fs.writefile.copied", "fs.writefile.chmodded"}
	sizes := []int{0, 1, 4096, 300000}
	if !r.Replaying() {
		for ci, size := range sizes {
			for _, p := range points {
				dest := filepath.Join(wf, fmt.Sprintf("dest%d", ci))
				old := strings.Repeat("O", 1000)
				nw := strings.Repeat("N", size)
				os.WriteFile(dest, []byte(old), 0o644)
				res := lib.Child("TestC32WriteFileChild", []string{"VERIF_HOOK_CRASH=" + p + "#1", "C32_DEST=" + dest, "C32_SIZE=" + fmt.Sprint(size)}, 60*time.Second)
				died := res.Signal == "killed"
				r.Case(fmt.Sprintf("writefile|%d|%s", size, p), died)
				if !died {
					r.Obs("writefile_point_not_reached", 1)
					continue
				}
				r.Obs("writefile_crashes", 1)
				b, err := os.ReadFile(dest)
				if err != nil || (string(b) != old && string(b) != nw) {
					r.Violation("writefile-torn/"+p, fmt.Sprintf("after a crash at %s the destination holds neither the old nor the new content (len %d, err %v)", p, len(b), err), map[string]any{"point": p, "size": size}, ci)
				}
			}
		}
	}
	r.RequireObserved("scenarios", "crashes_injected_at_hooks", "crashes_injected_externally", "writefile_crashes")
}

// TestC32WriteFileChild is the body of the fs.WriteFile crash child.
func TestC32WriteFileChild(t *testing.T) {
	if !lib.IsChild() {
		return
	}
	size, _ := strconv.Atoi(os.Getenv("C32_SIZE"))
	if err := fs.WriteFile(strings.NewReader(strings.Repeat("N", size)), os.Getenv("C32_DEST"), 0o644); err != nil {
		t.Fatal(err)
	}
}

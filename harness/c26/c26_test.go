// C26 — test outcomes are parsed and summarised faithfully.
//
// Layer IP: generated outcome sets (pass / fail / error / skip, surefire-style flaky and rerun
// sub-elements, repeated cases, names and messages full of XML metacharacters, markup look-alikes and
// non-ASCII, several suites under <testsuites>, several files, a results directory) are rendered by
// hand-written writers to JUnit XML and to `go test -v` text and parsed by the real parser through
// test.VerifParseResults / VerifParseResultsDir. Oracle: the multiset of (classname, name, outcome) of the
// parsed TestSuite equals the rendered one; Tests/Failures/Errors/Skips are exact, Passes lies between the
// clean and all passing cases (Passes-vs-FlakyPasses convention is not asserted), FlakyPasses counts the
// cases that passed with failed attempts, AllSucceeded <=> every case passed or was skipped.
// A failing input is minimised (documents, suites, cases, features, fields) before it is reported.
//
// Layer E2E: gentest targets whose test_cmd copies a generated results file per execution (a counter
// file outside the repository tells the execution number) and exits non-zero exactly when that
// execution reports a failure or error; `flaky = N`. Oracle: reference re-run loop (stop at the first green
// execution, at most N) and merge; plz's exit status, its per-target summary line and the cases in
// plz-out/log/test_results.xml must agree with it.
package c26

import (
	"encoding/xml"
	"fmt"
	"math/rand"
	"os"
	"path/filepath"
	"regexp"
	"sort"
	"strconv"
	"strings"
	"sync"
	"testing"
	"time"

	"github.com/thought-machine/please/src/core"
	plztest "github.com/thought-machine/please/src/test"

	x "verifharness/e2ealib"
	"verifharness/iplib"
	"verifharness/lib"
)

// classify derives a case's outcome from its executions, independently of the counting methods under test.
func classify(tc core.TestCase) (outcome string, flaky bool) {
	var pass, skip, errd, fail bool
	for _, e := range tc.Executions {
		switch {
		case e.Failure == nil && e.Error == nil && e.Skip == nil:
			pass = true
		case e.Skip != nil:
			skip = true
		case e.Error != nil:
			errd = true
		default:
			fail = true
		}
	}
	switch {
	case pass:
		return oPass, errd || fail
	case skip:
		return oSkip, false
	case errd:
		return oError, false
	case fail:
		return oFail, false
	}
	return "no-executions", false
}

type diff struct {
	Kind   string `json:"kind"`
	Detail string `json:"detail"`
}

func charClass(s string) string {
	var cl []string
	if strings.ContainsAny(s, "<>&\"'") {
		cl = append(cl, "xml-metachars")
	}
	if strings.ContainsAny(s, " \t\n") {
		cl = append(cl, "whitespace")
	}
	for _, c := range s {
		if c > 127 {
			cl = append(cl, "non-ascii")
			break
		}
	}
	if len(cl) == 0 {
		return "plain-ascii"
	}
	return strings.Join(cl, "+")
}

// compare checks a parsed suite against the expected cases. nil means faithful.
func compare(got core.TestSuite, err error, want []exp) *diff {
	if err != nil {
		return &diff{"parse-error", err.Error()}
	}
	wantN, gotN := map[string]int{}, map[string]int{}
	for _, e := range want {
		wantN[e.key()]++
	}
	var gotList []exp
	for _, tc := range got.TestCases {
		o, fl := classify(tc)
		e := exp{Class: tc.ClassName, Name: tc.Name, Outcome: o, Flaky: fl}
		gotList = append(gotList, e)
		gotN[e.key()]++
	}
	var missing, extra []exp
	for _, e := range want {
		if gotN[e.key()] > 0 {
			gotN[e.key()]--
		} else {
			missing = append(missing, e)
		}
	}
	for _, e := range gotList {
		if wantN[e.key()] > 0 {
			wantN[e.key()]--
		} else {
			extra = append(extra, e)
		}
	}
	if len(missing)+len(extra) > 0 {
		det := fmt.Sprintf("missing %s, unexpected %s", lib.JSON(missing), lib.JSON(extra))
		if len(missing) == len(extra) {
			for _, m := range missing {
				for _, e := range extra {
					if m.Class == e.Class && m.Name == e.Name {
						return &diff{"outcome:" + m.Outcome + "->" + e.Outcome, det}
					}
				}
			}
			for _, m := range missing {
				for _, e := range extra {
					if m.Outcome == e.Outcome && m.Class == e.Class {
						return &diff{"name-changed:" + charClass(m.Name), det}
					}
					if m.Outcome == e.Outcome && m.Name == e.Name {
						return &diff{"classname-changed:" + charClass(m.Class), det}
					}
				}
			}
		}
		return &diff{"cases-lost-or-invented", det}
	}
	var nFail, nErr, nSkip, nPass, nFlaky int
	for _, e := range want {
		switch e.Outcome {
		case oFail:
			nFail++
		case oError:
			nErr++
		case oSkip:
			nSkip++
		default:
			nPass++
			if e.Flaky {
				nFlaky++
			}
		}
	}
	check := func(name string, got, lo, hi int) *diff {
		if got < lo || got > hi {
			return &diff{"count:" + name, fmt.Sprintf("%s() = %d, expected %d..%d for %d cases (%d pass of which %d flaky, %d fail, %d error, %d skip)", name, got, lo, hi, len(want), nPass, nFlaky, nFail, nErr, nSkip)}
		}
		return nil
	}
	for _, d := range []*diff{
		check("Tests", got.Tests(), len(want), len(want)),
		check("Failures", got.Failures(), nFail, nFail),
		check("Errors", got.Errors(), nErr, nErr),
		check("Skips", got.Skips(), nSkip, nSkip),
		check("Passes", got.Passes(), nPass-nFlaky, nPass),
		check("FlakyPasses", got.FlakyPasses(), nFlaky, nFlaky),
	} {
		if d != nil {
			return d
		}
	}
	if all := nFail+nErr == 0; got.TestCases.AllSucceeded() != all {
		return &diff{"all-succeeded", fmt.Sprintf("AllSucceeded() = %v with %d failed and %d errored cases", !all, nFail, nErr)}
	}
	return nil
}

type input struct {
	Docs []*doc `json:"documents"`
	Dir  bool   `json:"as_results_directory"`
}

func (in *input) expected() []exp {
	var out []exp
	for _, d := range in.Docs {
		out = append(out, d.expected()...)
	}
	return out
}

func (in *input) parse(scratch string) (core.TestSuite, error) {
	if !in.Dir {
		var data [][]byte
		for _, d := range in.Docs {
			data = append(data, render(d))
		}
		return plztest.VerifParseResults(data)
	}
	dir, err := os.MkdirTemp(scratch, "res")
	if err != nil {
		panic(err)
	}
	defer os.RemoveAll(dir)
	for k, d := range in.Docs {
		p := filepath.Join(dir, fmt.Sprintf("f%d.%s", k, map[string]string{"junit": "xml", "gotest": "txt"}[d.Format]))
		if k%3 == 2 {
			os.MkdirAll(filepath.Join(dir, "sub"), 0o755)
			p = filepath.Join(dir, "sub", filepath.Base(p))
		}
		if err := os.WriteFile(p, render(d), 0o644); err != nil {
			panic(err)
		}
	}
	return plztest.VerifParseResultsDir(dir)
}

func (in *input) check(scratch string) *diff {
	got, err := in.parse(scratch)
	return compare(got, err, in.expected())
}

func kindClass(k string) string {
	c, _, _ := strings.Cut(k, ":")
	return c
}

func cloneDoc(d *doc) *doc {
	c := *d
	c.Features = append([]string(nil), d.Features...)
	c.Suites = nil
	var cloneCases func(cs []tcase) []tcase
	cloneCases = func(cs []tcase) []tcase {
		out := append([]tcase(nil), cs...)
		for i := range out {
			out[i].Sub = cloneCases(out[i].Sub)
		}
		return out
	}
	for _, s := range d.Suites {
		s2 := s
		s2.Cases = cloneCases(s.Cases)
		c.Suites = append(c.Suites, s2)
	}
	return &c
}

// minimise shrinks a failing input while some difference persists.
func minimise(in *input, scratch string, first *diff) (*input, *diff) {
	budget := 400
	best, bestDiff := in, first
	try := func(c *input) bool {
		if budget <= 0 {
			return false
		}
		budget--
		if d := c.check(scratch); d != nil { // any difference keeps the candidate (a smaller failing input is a better witness)
			best, bestDiff = c, d
			return true
		}
		return false
	}
	if in.Dir {
		try(&input{Docs: in.Docs})
	}
	if len(best.Docs) > 1 {
		for _, d := range best.Docs {
			if try(&input{Docs: []*doc{d}, Dir: best.Dir}) {
				break
			}
		}
	}
	for changed := true; changed && budget > 0; {
		changed = false
		for di := range best.Docs {
			mut := func(f func(d *doc) bool) bool {
				docs := append([]*doc(nil), best.Docs...)
				docs[di] = cloneDoc(best.Docs[di])
				if !f(docs[di]) {
					return false
				}
				docs[di].normalise()
				return try(&input{Docs: docs, Dir: best.Dir})
			}
			d := best.Docs[di]
			for si := len(d.Suites) - 1; si >= 0; si-- {
				if len(best.Docs[di].Suites) > 1 && si < len(best.Docs[di].Suites) {
					if mut(func(d *doc) bool { d.Suites = append(d.Suites[:si:si], d.Suites[si+1:]...); return true }) {
						changed = true
					}
				}
			}
			for si := 0; si < len(best.Docs[di].Suites); si++ {
				for ci := len(best.Docs[di].Suites[si].Cases) - 1; ci >= 0; ci-- {
					if ci >= len(best.Docs[di].Suites[si].Cases) {
						continue
					}
					if best.Docs[di].Root == "testcase" || (best.Docs[di].Format == "gotest" && len(best.Docs[di].Suites[si].Cases) == 1) {
						continue
					}
					if mut(func(d *doc) bool {
						cs := d.Suites[si].Cases
						d.Suites[si].Cases = append(cs[:ci:ci], cs[ci+1:]...)
						return true
					}) {
						changed = true
					}
				}
				for ci := 0; ci < len(best.Docs[di].Suites[si].Cases); ci++ {
					c := best.Docs[di].Suites[si].Cases[ci]
					simpl := []func(c *tcase) bool{
						func(c *tcase) bool { ok := len(c.Sub) > 0; c.Sub = nil; return ok },
						func(c *tcase) bool { ok := c.Msg != ""; c.Msg = ""; return ok },
						func(c *tcase) bool { ok := c.Body != ""; c.Body = ""; return ok },
						func(c *tcase) bool { ok := c.Out != ""; c.Out = ""; return ok },
						func(c *tcase) bool { ok := c.Time != ""; c.Time = ""; return ok },
						func(c *tcase) bool {
							ok := c.FlakyFail+c.FlakyErr+c.RerunFail+c.RerunErr > 0
							c.FlakyFail, c.FlakyErr, c.RerunFail, c.RerunErr = 0, 0, 0, 0
							return ok
						},
						func(c *tcase) bool { ok := c.Class != ""; c.Class = ""; return ok },
						func(c *tcase) bool {
							n := fmt.Sprintf("T%d", ci)
							ok := c.Name != n && !strings.HasPrefix(c.Name, "T")
							c.Name = n
							return ok
						},
					}
					_ = c
					for _, f := range simpl {
						if mut(func(d *doc) bool { return f(&d.Suites[si].Cases[ci]) }) {
							changed = true
						}
					}
				}
			}
			if best.Docs[di].Format == "junit" && best.Docs[di].Root == "testsuites" && len(best.Docs[di].Suites) == 1 {
				if mut(func(d *doc) bool { d.Root = "testsuite"; return true }) {
					changed = true
				}
			}
			for _, feat := range append([]string(nil), best.Docs[di].Features...) {
				if mut(func(d *doc) bool {
					var out []string
					for _, f := range d.Features {
						if f != feat {
							out = append(out, f)
						}
					}
					d.Features = out
					return true
				}) {
					changed = true
				}
			}
		}
	}
	return best, bestDiff
}

// causes: writer features that were the sole feature of a minimised failing document, with the key they got.
var causes struct {
	sync.Mutex
	list [][2]string
}

func docKind(d *doc) string {
	if d.Format == "gotest" {
		return "gotest"
	}
	return "junit-" + d.Root
}

func genInput(rng *rand.Rand) *input {
	in := &input{Dir: rng.Intn(7) == 0}
	n := 1
	if rng.Intn(10) < 3 {
		n = 2 + rng.Intn(3)
	}
	for k := 0; k < n; k++ {
		if rng.Intn(20) < 13 {
			in.Docs = append(in.Docs, genJUnit(rng))
		} else {
			in.Docs = append(in.Docs, genGo(rng))
		}
	}
	return in
}

// ---------------------------------------------------------------------------------------------
// E2E

type e2eCase struct {
	Class  string   `json:"classname,omitempty"`
	Name   string   `json:"name"`
	PerRun []string `json:"outcome_per_execution"`
}

type e2eTarget struct {
	Name       string    `json:"name"`
	Format     string    `json:"format"`
	Flaky      int       `json:"flaky"` // 0 = attribute absent
	Cases      []e2eCase `json:"cases"`
	Crash      []bool    `json:"execution_exits_nonzero_without_results"`
	ResultsDir bool      `json:"results_file_is_a_directory,omitempty"`
	Scenario   string    `json:"scenario"`
}

func (t *e2eTarget) allowance() int {
	if t.Flaky < 1 {
		return 1
	}
	return t.Flaky
}

func (t *e2eTarget) runGreen(r int) bool {
	if t.Crash[r] {
		return false
	}
	for _, c := range t.Cases {
		if c.PerRun[r] == oFail || c.PerRun[r] == oError {
			return false
		}
	}
	return true
}

type e2eRef struct {
	Executions int    `json:"executions"`
	Final      []exp  `json:"final_cases"`
	Pass       bool   `json:"target_passes"`
	AnyCrash   bool   `json:"some_execution_crashed"`
	Note       string `json:"note,omitempty"`
}

// reference: execute at most `allowance` times, stop at the first green execution; a case passed if any
// of its executions passed, else is skipped if any was skipped, else errored if any errored, else failed.
func (t *e2eTarget) reference() e2eRef {
	ref := e2eRef{}
	for r := 0; r < t.allowance(); r++ {
		ref.Executions++
		if t.Crash[r] {
			ref.AnyCrash = true
		}
		if t.runGreen(r) {
			break
		}
	}
	ref.Pass = true
	produced := false
	for _, c := range t.Cases {
		var pass, skip, errd, fail bool
		for r := 0; r < ref.Executions; r++ {
			if t.Crash[r] {
				continue
			}
			produced = true
			switch c.PerRun[r] {
			case oPass:
				pass = true
			case oSkip:
				skip = true
			case oError:
				errd = true
			default:
				fail = true
			}
		}
		e := exp{Class: c.Class, Name: c.Name}
		switch {
		case pass:
			e.Outcome, e.Flaky = oPass, errd || fail
		case skip:
			e.Outcome = oSkip
		case errd:
			e.Outcome = oError
		case fail:
			e.Outcome = oFail
		default:
			e.Outcome = "never-reported"
		}
		if e.Outcome != oPass && e.Outcome != oSkip {
			ref.Pass = false
		}
		ref.Final = append(ref.Final, e)
	}
	if !produced {
		ref.Pass = false
	}
	return ref
}

func (t *e2eTarget) hasDuplicateNames() bool {
	seen := map[string]bool{}
	for _, c := range t.Cases {
		k := c.Class + "\x00" + c.Name
		if seen[k] {
			return true
		}
		seen[k] = true
	}
	return false
}

// errorsOnlyRun: some executed run exits non-zero while reporting errors but no failures.
func (t *e2eTarget) errorsOnlyRun(executions int) bool {
	for r := 0; r < executions; r++ {
		if t.Crash[r] {
			continue
		}
		e, f := 0, 0
		for _, c := range t.Cases {
			switch c.PerRun[r] {
			case oError:
				e++
			case oFail:
				f++
			}
		}
		if e > 0 && f == 0 {
			return true
		}
	}
	return false
}

func (t *e2eTarget) docForRun(r int) *doc {
	if t.Format == "gotest" {
		d := &doc{Format: "gotest", GoPkg: "example.com/p", Features: []string{"trailer", "output-lines"}}
		s := suite{}
		for _, c := range t.Cases {
			o := c.PerRun[r]
			if o == oError {
				o = oFail
			}
			s.Cases = append(s.Cases, tcase{Name: c.Name, Outcome: o, Msg: "msg"})
		}
		d.Suites = []suite{s}
		return d
	}
	d := &doc{Format: "junit", Root: []string{"testsuites", "testsuite"}[r%2], Features: []string{"decl", "indent", "suite-counts"}}
	s := suite{Name: "suite", Pkg: "p"}
	for _, c := range t.Cases {
		s.Cases = append(s.Cases, tcase{Class: c.Class, Name: c.Name, Outcome: c.PerRun[r], Msg: "m<" + c.PerRun[r] + ">", Body: "trace & more", Time: "0.01"})
	}
	d.Suites = []suite{s}
	return d
}

func genE2E(rng *rand.Rand) *e2eTarget {
	t := &e2eTarget{Name: "t", Format: "junit"}
	if rng.Intn(3) == 0 {
		t.Format = "gotest"
	}
	if rng.Intn(4) != 0 {
		t.Flaky = 2 + rng.Intn(3)
	} else if rng.Intn(2) == 0 {
		t.Flaky = 1
	}
	n := t.allowance()
	runs := n + 1 // one execution beyond the allowance is planned (all green) so that an extra retry would show
	nc := 1 + rng.Intn(4)
	bad := oFail
	if t.Format == "junit" && rng.Intn(2) == 0 {
		bad = oError
	}
	names := []string{"testA", "test<b>", "tést&c", "TestD", "it's \"e\""}
	if t.Format == "gotest" {
		names = []string{"TestA", "Test<b>", "TestÜ&c", "TestD", "TestE"}
	}
	for j := 0; j < nc; j++ {
		c := e2eCase{Name: names[j], PerRun: make([]string, runs)}
		if t.Format == "junit" {
			c.Class = pick(rng, []string{"pkg.C", "", "a&b.C"})
		}
		stable := oPass
		if rng.Intn(5) == 0 {
			stable = oSkip
		}
		for r := range c.PerRun {
			c.PerRun[r] = stable
		}
		t.Cases = append(t.Cases, c)
	}
	t.Crash = make([]bool, runs)
	victim := rng.Intn(nc)
	switch sc := rng.Intn(8); sc {
	case 0:
		t.Scenario = "green-first-time"
	case 1, 2:
		k := 1 + rng.Intn(n) // bad in executions 1..k, green from k+1 on: passes iff k < n
		t.Scenario = fmt.Sprintf("%s-in-first-%d-of-%d-allowed", bad, k, n)
		for r := 0; r < k; r++ {
			t.Cases[victim].PerRun[r] = bad
		}
	case 3:
		t.Scenario = "different-case-bad-in-alternate-executions"
		if nc < 2 {
			t.Cases = append(t.Cases, e2eCase{Class: t.Cases[0].Class, Name: names[nc], PerRun: append([]string(nil), t.Cases[0].PerRun...)})
			nc++
		}
		for r := 0; r < n; r++ {
			t.Cases[r%2].PerRun[r] = bad
		}
	case 4:
		t.Scenario = "always-" + bad
		for r := 0; r < n; r++ {
			t.Cases[victim].PerRun[r] = bad
		}
		t.Cases[victim].PerRun[n] = bad
	case 5:
		k := 1 + rng.Intn(n)
		t.Scenario = fmt.Sprintf("crash-without-results-in-first-%d-of-%d-allowed", k, n)
		for r := 0; r < k; r++ {
			t.Crash[r] = true
		}
	case 6:
		t.Scenario = "repeated-case-name-one-" + bad + "-one-pass"
		dup := e2eCase{Class: t.Cases[victim].Class, Name: t.Cases[victim].Name, PerRun: make([]string, runs)}
		for r := range dup.PerRun {
			dup.PerRun[r] = oPass
			t.Cases[victim].PerRun[r] = bad
		}
		if rng.Intn(2) == 0 && n > 1 { // or: the failing twin recovers on the second execution
			t.Scenario += "-then-recovers"
			for r := 1; r < runs; r++ {
				t.Cases[victim].PerRun[r] = oPass
			}
		}
		t.Cases = append(t.Cases, dup)
	case 7:
		t.Scenario = "mixed-fail-and-error-then-green"
		k := 1 + rng.Intn(n)
		for r := 0; r < k; r++ {
			t.Cases[victim].PerRun[r] = oFail
			if t.Format == "junit" {
				t.Cases[(victim+1)%nc].PerRun[r] = oError
			}
		}
		t.Scenario += fmt.Sprintf("-after-%d-of-%d", k, n)
	}
	t.ResultsDir = rng.Intn(6) == 0
	return t
}

func (t *e2eTarget) files(vlog string) map[string]string {
	files := map[string]string{".plzconfig": x.BaseConfig("", "")}
	var data []string
	var sb strings.Builder
	counter := vlog + "/" + t.Name + ".count"
	fmt.Fprintf(&sb, "n=$(cat %s 2>/dev/null || echo 0); n=$((n+1)); echo $n > %s\n", counter, counter)
	sb.WriteString("case $n in\n")
	for r := range t.Crash {
		pat := strconv.Itoa(r + 1)
		if r == len(t.Crash)-1 {
			pat = "*"
		}
		exit := 0
		if !t.runGreen(r) {
			exit = 1
		}
		if t.Crash[r] {
			fmt.Fprintf(&sb, "  %s) exit 1 ;;\n", pat)
			continue
		}
		fn := fmt.Sprintf("%s.run%d.res", t.Name, r+1)
		files["p/"+fn] = string(render(t.docForRun(r)))
		data = append(data, fn)
		if t.ResultsDir {
			fmt.Fprintf(&sb, "  %s) mkdir -p \"$RESULTS_FILE\"; cp p/%s \"$RESULTS_FILE/part1\"; exit %d ;;\n", pat, fn, exit)
		} else {
			fmt.Fprintf(&sb, "  %s) cp p/%s \"$RESULTS_FILE\"; exit %d ;;\n", pat, fn, exit)
		}
	}
	sb.WriteString("esac\n")
	r := x.NewRule("gentest", t.Name).List("data", data).Str("test_cmd", sb.String())
	if t.Flaky > 0 {
		r.Add("flaky", strconv.Itoa(t.Flaky))
	}
	files["p/BUILD"] = r.Render()
	return files
}

var summaryRe = regexp.MustCompile(`(?m)^//p:t (\d+) tests? run(?: in [^;]*)?; (\d+) passed(.*)$`)

type plzSummary struct {
	Found                                           bool
	Tests, Passed, Errored, Failed, Skipped, Flakes int
	Line                                            string
}

func parseSummary(out string) plzSummary {
	m := summaryRe.FindStringSubmatch(out)
	if m == nil {
		return plzSummary{}
	}
	s := plzSummary{Found: true, Line: m[0]}
	s.Tests, _ = strconv.Atoi(m[1])
	s.Passed, _ = strconv.Atoi(m[2])
	num := func(word string) int {
		if k := regexp.MustCompile(`(\d+) ` + word).FindStringSubmatch(m[3]); k != nil {
			v, _ := strconv.Atoi(k[1])
			return v
		}
		return 0
	}
	s.Errored, s.Failed, s.Skipped, s.Flakes = num("errored"), num("failed"), num("skipped"), num("flakes?")
	return s
}

type xmlCase struct {
	Name      string     `xml:"name,attr"`
	ClassName string     `xml:"classname,attr"`
	Failure   *xmlFault  `xml:"failure"`
	Error     *xmlFault  `xml:"error"`
	Skipped   *struct{}  `xml:"skipped"`
	FlakyF    []xmlFault `xml:"flakyFailure"`
	FlakyE    []xmlFault `xml:"flakyError"`
}
type xmlFault struct {
	Type    string `xml:"type,attr"`
	Message string `xml:"message,attr"`
}
type xmlReport struct {
	Suites []struct {
		Cases []xmlCase `xml:"testcase"`
	} `xml:"testsuite"`
}

// An e2eFinding is one disagreement between plz and the reference for one target.
type e2eFinding struct {
	Key          string
	Severity     int // 3 wrong verdict, 2 wrong summary counts, 1 wrong cases in the written report
	What         string
	Witness      map[string]any
	Case         int
	Inconclusive string
}

var digits = regexp.MustCompile(`\d+`)

// evalE2E materialises the target in a fresh repository, runs `plz test` once and compares exit status,
// summary line and written report with the reference. nil = all agree. Observations are only counted for
// primary runs (not for the minimiser's re-runs).
func evalE2E(r *lib.Run, bin, work string, tg *e2eTarget, primary bool) *e2eFinding {
	obs := func(name string, n int64) {
		if primary {
			r.Obs(name, n)
		}
	}
	repo, vlog, home := filepath.Join(work, "repo"), filepath.Join(work, "vlog"), filepath.Join(work, "home")
	defer lib.RemoveAll(work)
	for _, p := range []string{repo, vlog, home} {
		os.MkdirAll(p, 0o755)
	}
	files := tg.files(vlog)
	if err := lib.WriteTree(repo, files); err != nil {
		panic(err)
	}
	ref := tg.reference()
	res := lib.PlzCmd{Bin: bin, Dir: repo, Args: []string{"test", "//p:t"}, Home: home, Timeout: 240 * time.Second, OnTimeout: lib.QuiescenceReport}.Run()
	if primary {
		r.Case(lib.Hash(lib.JSON(files)), ref.Executions > 1 || len(tg.Cases) > 1)
		r.ObsDistinct("e2e_scenarios", digits.ReplaceAllString(tg.Scenario, "N")+"/"+tg.Format)
	}
	obs("e2e_invocations", 1)
	if res.TimedOut {
		return &e2eFinding{Inconclusive: "plz watchdog fired: " + res.Watchdog}
	}
	executed := 0
	if b, err := os.ReadFile(filepath.Join(vlog, "t.count")); err == nil {
		executed, _ = strconv.Atoi(strings.TrimSpace(string(b)))
	}
	obs("e2e_test_executions", int64(executed))
	if executed > 1 {
		obs("e2e_retries_observed", int64(executed-1))
	}
	sum := parseSummary(res.Stderr + "\n" + res.Stdout)
	var rep xmlReport
	var repCases []xmlCase
	if b, err := os.ReadFile(filepath.Join(repo, "plz-out/log/test_results.xml")); err == nil {
		if xml.Unmarshal(b, &rep) == nil {
			for _, s := range rep.Suites {
				repCases = append(repCases, s.Cases...)
			}
		}
	}
	wit := map[string]any{"target": tg, "reference": ref, "files": files, "plz_exit": res.Exit, "executions_observed": executed,
		"stdout": lib.Tail(res.Stdout, 2500), "stderr": lib.Tail(res.Stderr, 2500), "reported_cases": repCases}

	// what went wrong is named by the input class that triggers it, so that one defect keeps one key
	synthetic := map[string]bool{}
	for _, c := range repCases {
		for _, f := range []*xmlFault{c.Failure, c.Error} {
			if f != nil && c.Name == "t" {
				synthetic[f.Type] = true
			}
		}
	}
	finding := func(severity int, symptom, what string) *e2eFinding {
		key := ""
		switch {
		case tg.hasDuplicateNames():
			key = "e2e/repeated-case-name-in-one-execution-merged-as-retry"
		case synthetic["ReturnValue"] && tg.errorsOnlyRun(ref.Executions):
			key = "e2e/nonzero-exit-with-errors-but-no-failures/synthetic-ReturnValue-case"
		case synthetic["TestFailed"] && ref.AnyCrash && ref.Pass:
			key = "e2e/flaky/execution-without-results-not-forgiven-by-green-retry"
		default:
			key = "e2e/" + tg.Format + "/" + digits.ReplaceAllString(tg.Scenario, "N") + "/" + symptom
		}
		wit["symptom"] = symptom
		return &e2eFinding{Key: key, Severity: severity, What: "[" + symptom + "] " + what, Witness: wit}
	}
	gotPass := res.Exit == 0
	if gotPass != ref.Pass {
		return finding(3, "wrong-verdict", fmt.Sprintf("plz test exit status %d (%s) but by the written outcomes and flaky=%d the target %s (scenario %s)", res.Exit,
			map[bool]string{true: "passing", false: "failing"}[gotPass], tg.Flaky, map[bool]string{true: "passes", false: "fails"}[ref.Pass], tg.Scenario))
	}
	obs("e2e_verdicts_agree", 1)
	if ref.AnyCrash {
		// how an execution that produced no results shows up in the counts is Please's own convention
		obs("e2e_counts_not_asserted_crashed_execution", 1)
		return nil
	}
	if !sum.Found {
		return &e2eFinding{Inconclusive: "no summary line for //p:t in plz output"}
	}
	var nFail, nErr, nSkip, nPass, nFlaky int
	for _, e := range ref.Final {
		switch e.Outcome {
		case oFail:
			nFail++
		case oError:
			nErr++
		case oSkip:
			nSkip++
		default:
			nPass++
			if e.Flaky {
				nFlaky++
			}
		}
	}
	wit["summary_line"] = sum.Line
	bad := ""
	switch {
	case sum.Tests != len(ref.Final):
		bad = fmt.Sprintf("tests run %d, expected %d", sum.Tests, len(ref.Final))
	case sum.Failed != nFail:
		bad = fmt.Sprintf("failed %d, expected %d", sum.Failed, nFail)
	case sum.Errored != nErr:
		bad = fmt.Sprintf("errored %d, expected %d", sum.Errored, nErr)
	case sum.Skipped != nSkip:
		bad = fmt.Sprintf("skipped %d, expected %d", sum.Skipped, nSkip)
	case sum.Passed > nPass || sum.Passed+sum.Flakes < nPass:
		bad = fmt.Sprintf("passed %d with %d flakes, expected %d passing cases", sum.Passed, sum.Flakes, nPass)
	}
	if bad != "" {
		return finding(2, "wrong-summary-counts", "plz test summary disagrees with the written outcomes: "+bad+" — "+sum.Line)
	}
	obs("e2e_summaries_agree", 1)
	// the cases in plz's own report
	wantN := map[string]int{}
	for _, e := range ref.Final {
		wantN[e.key()]++
	}
	for _, c := range repCases {
		o := oPass
		switch {
		case c.Failure != nil:
			o = oFail
		case c.Error != nil:
			o = oError
		case c.Skipped != nil:
			o = oSkip
		}
		cls := c.ClassName
		if cls == "p.t" { // plz fills an absent classname with <package>.<target> when it writes its report
			cls = ""
		}
		wantN[exp{Class: cls, Name: c.Name, Outcome: o}.key()]--
	}
	var off []string
	for k, v := range wantN {
		if v != 0 {
			off = append(off, fmt.Sprintf("%s:%+d", k, v))
		}
	}
	sort.Strings(off)
	if len(off) > 0 {
		return finding(1, "wrong-cases-in-report", "plz-out/log/test_results.xml lists other cases/outcomes than were written (expected minus reported): "+strings.Join(off, " "))
	}
	obs("e2e_reports_agree", 1)
	if primary && r.WantSample() && ref.Executions > 1 {
		r.Sample(map[string]any{"e2e_target": tg, "reference": ref, "summary": sum.Line, "exit": res.Exit})
	}
	return nil
}

func TestC26(t *testing.T) {
	iplib.Quiet()
	r := lib.Start("C26")
	defer lib.End(t, r)
	r.Rule = "IP case = 1-4 generated result documents (JUnit XML under <testsuites>/<testsuite>, or go test -v text; 0-6 cases per suite with pass/fail/error/skip, flaky/rerun sub-elements, repeated names, metacharacter and non-ASCII names; 0-21 writer features such as BOM, single quotes, numeric references, CDATA, comments holding ghost testcases, unknown attributes) parsed as byte slices or as a results directory; E2E case = one gentest with flaky=N whose executions follow a generated scenario. Distinct by rendered bytes / BUILD+result files; non-trivial = at least two different outcomes, a flaky/rerun element, or more than one execution"
	r.Assumes = []string{
		"each rendered <testcase> element / go test result line is one test case (repeated names are separate cases within one execution)",
		"the hand-written writers emit well-formed XML 1.0 / genuine go test -v line shapes; documents with a bare <testcase> root or a <testsuite> nested in a <testsuite> are observed, not asserted",
		"an execution's exit status is non-zero exactly when it reports a failure or error (the documented gentest contract)",
	}
	scratch := r.Scratch()

	nIP := r.Pick(3000, 80000)
	r.ForEach("ip", nIP, 8, func(i int, rng *rand.Rand) {
		in := genInput(rng)
		// documents outside the asserted formats are looked at on their own
		asserted := &input{Dir: in.Dir}
		for _, d := range in.Docs {
			if why := d.observeOnly(); why != "" {
				solo := &input{Docs: []*doc{d}}
				if df := solo.check(scratch); df == nil {
					r.Obs("not_asserted_"+why+"_faithful", 1)
				} else {
					r.Obs("not_asserted_"+why+"_unfaithful", 1)
					r.ObsDistinct("not_asserted_"+why+"_differences", kindClass(df.Kind))
				}
				continue
			}
			asserted.Docs = append(asserted.Docs, d)
		}
		if len(asserted.Docs) == 0 {
			return
		}
		want := asserted.expected()
		outcomes := map[string]bool{}
		flaky := false
		var bytesHash []string
		for _, d := range asserted.Docs {
			bytesHash = append(bytesHash, string(render(d)))
			r.ObsDistinct("document_kinds", docKind(d))
			for _, f := range d.Features {
				r.ObsDistinct("writer_features", d.Format+":"+f)
			}
		}
		for _, e := range want {
			outcomes[e.Outcome] = true
			flaky = flaky || e.Flaky
		}
		r.Case(lib.Hash(bytesHash...)+fmt.Sprint(asserted.Dir), len(outcomes) >= 2 || flaky)
		r.Obs("ip_parses", 1)
		r.Obs("ip_cases_compared", int64(len(want)))
		if asserted.Dir {
			r.Obs("ip_results_directories", 1)
		}
		df := asserted.check(scratch)
		if df == nil {
			if r.WantSample() && len(want) >= 3 && len(outcomes) >= 3 {
				r.Sample(map[string]any{"input": asserted, "first_document": string(render(asserted.Docs[0])), "expected": want})
			}
			return
		}
		// A failure that goes away when one writer feature already reported as a minimal cause is dropped
		// everywhere belongs to that key: no need to minimise it again (this keeps the run fast while a
		// known defect is open, and leaves the budget for failures with another cause).
		causes.Lock()
		known := append([][2]string(nil), causes.list...)
		causes.Unlock()
		for _, kc := range known {
			c := &input{Dir: asserted.Dir}
			had := false
			for _, d := range asserted.Docs {
				d2 := cloneDoc(d)
				var fs []string
				for _, f := range d2.Features {
					if f == kc[0] {
						had = true
						continue
					}
					fs = append(fs, f)
				}
				d2.Features = fs
				c.Docs = append(c.Docs, d2)
			}
			if had && c.check(scratch) == nil {
				r.Obs("ip_failures_explained_by_reported_cause", 1)
				r.Violation(kc[1], "same cause as the recorded witness of this key", nil, i)
				return
			}
		}
		min, mdf := minimise(asserted, scratch, df)
		var rendered []string
		var kinds, feats []string
		for _, d := range min.Docs {
			rendered = append(rendered, string(render(d)))
			kinds = append(kinds, docKind(d))
			feats = append(feats, sortedFeatures(d))
		}
		key := strings.Join(kinds, ",") + "/" + mdf.Kind + "/" + strings.Join(feats, ",")
		if len(min.Docs) == 1 && mdf.Kind == "cases-lost-or-invented" {
			// one document whose cases are not what was written: the writer feature (or "plain") names the input class
			key = min.Docs[0].Format + "/" + mdf.Kind + "/" + feats[0]
			if feats[0] == "plain" {
				key = kinds[0] + "/" + mdf.Kind + "/plain"
			}
		}
		if min.Dir {
			key = "dir:" + key
		}
		r.Violation(key, fmt.Sprintf("parsed results differ from what was written (%s): %s", mdf.Kind, mdf.Detail),
			map[string]any{"minimal_input": min, "minimal_rendered": rendered, "minimal_expected": min.expected(), "difference": mdf, "original_input": asserted, "original_difference": df}, i)
		if len(min.Docs) == 1 && len(min.Docs[0].Features) == 1 { // only after the witness is recorded
			causes.Lock()
			causes.list = append(causes.list, [2]string{min.Docs[0].Features[0], key})
			causes.Unlock()
		}
	})
	r.RequireObserved("ip_parses", "ip_cases_compared", "ip_results_directories")

	bin := os.Getenv("VERIF_PLZ")
	if bin == "" {
		r.FatalInconclusive("VERIF_PLZ is not set: the E2E layer did not run")
		return
	}
	nE := r.Pick(40, 300)
	var fmu sync.Mutex
	findings := map[string]*e2eFinding{} // per key: the most severe witness (verdict > summary > report), minimised
	r.ForEach("e2e", nE, 6, func(i int, rng *rand.Rand) {
		tg := genE2E(rng)
		f := evalE2E(r, bin, filepath.Join(scratch, fmt.Sprintf("e2e%d", i)), tg, true)
		if f == nil {
			return
		}
		if f.Inconclusive != "" {
			r.Inconclusive(fmt.Sprintf("e2e case %d: %s", i, f.Inconclusive))
			return
		}
		r.Obs("e2e_disagreements", 1)
		fmu.Lock()
		old := findings[f.Key]
		fmu.Unlock()
		if old != nil && old.Severity >= f.Severity {
			return
		}
		// minimise: drop the cases that behave the same in every execution, use a plain results file
		min, mf := tg, f
		try := func(c *e2eTarget, tag string) {
			if g := evalE2E(r, bin, filepath.Join(scratch, fmt.Sprintf("e2e%d.%s", i, tag)), c, false); g != nil && g.Key == f.Key && g.Severity >= mf.Severity {
				min, mf = c, g
			}
		}
		if !r.Replaying() {
			for j := len(tg.Cases) - 1; j >= 0 && len(min.Cases) > 1; j-- {
				if j >= len(min.Cases) {
					continue
				}
				stable := true
				for _, o := range min.Cases[j].PerRun {
					stable = stable && o == min.Cases[j].PerRun[0] && (o == oPass || o == oSkip)
				}
				dupOfOther := false
				for k, c := range min.Cases {
					dupOfOther = dupOfOther || (k != j && c.Class == min.Cases[j].Class && c.Name == min.Cases[j].Name)
				}
				if !stable || dupOfOther {
					continue
				}
				c := *min
				c.Cases = append(append([]e2eCase(nil), min.Cases[:j]...), min.Cases[j+1:]...)
				try(&c, fmt.Sprintf("drop%d", j))
			}
			if min.ResultsDir {
				c := *min
				c.ResultsDir = false
				try(&c, "plainfile")
			}
		}
		mf.Witness["original_target"] = tg
		mf.Case = i
		fmu.Lock()
		if old := findings[mf.Key]; old == nil || old.Severity < mf.Severity {
			findings[mf.Key] = mf
		}
		fmu.Unlock()
	})
	for _, k := range x.SortedKeys(findings) {
		f := findings[k]
		r.Violation(f.Key, f.What, f.Witness, f.Case)
	}
	r.RequireObserved("e2e_invocations", "e2e_test_executions", "e2e_retries_observed", "e2e_verdicts_agree", "e2e_summaries_agree", "e2e_reports_agree")
}

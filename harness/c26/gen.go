package c26

// Generators and independent writers for the two result formats. Rendering is a pure function of the
// document value (every stylistic choice is a named feature stored in the document), so that a failing
// document can be minimised by dropping suites, cases and features one at a time.

import (
	"fmt"
	"math/rand"
	"sort"
	"strings"
)

const (
	oPass  = "pass"
	oFail  = "fail"
	oError = "error"
	oSkip  = "skip"
)

type tcase struct {
	Class     string  `json:"classname,omitempty"`
	Name      string  `json:"name"`
	Outcome   string  `json:"outcome"`
	FlakyFail int     `json:"flakyFailure,omitempty"` // only with outcome pass
	FlakyErr  int     `json:"flakyError,omitempty"`   // only with outcome pass
	RerunFail int     `json:"rerunFailure,omitempty"` // only with outcome fail / error
	RerunErr  int     `json:"rerunError,omitempty"`   // only with outcome fail / error
	Msg       string  `json:"message,omitempty"`
	Body      string  `json:"body,omitempty"`
	Out       string  `json:"system_out,omitempty"`
	Time      string  `json:"time,omitempty"`
	Sub       []tcase `json:"subtests,omitempty"` // go format only
}

type suite struct {
	Name   string  `json:"name"`
	Pkg    string  `json:"package,omitempty"`
	Cases  []tcase `json:"cases"`
	Nested []suite `json:"nested_testsuites,omitempty"` // <testsuite> inside <testsuite>: observed, not asserted
}

type doc struct {
	Format   string   `json:"format"` // junit | gotest
	Root     string   `json:"root,omitempty"`
	Suites   []suite  `json:"suites"`
	Features []string `json:"features"`
	GoPkg    string   `json:"go_package,omitempty"`
}

func (d *doc) has(f string) bool {
	for _, x := range d.Features {
		if x == f {
			return true
		}
	}
	return false
}

// observeOnly names the reason why a document is outside what the statement calls a supported format
// ("" = asserted).
func (d *doc) observeOnly() string {
	if d.Format == "junit" && d.Root == "testcase" {
		return "bare-testcase-root"
	}
	for _, s := range d.Suites {
		if len(s.Nested) > 0 {
			return "testsuite-inside-testsuite"
		}
	}
	return ""
}

// An exp is one expected reported case.
type exp struct {
	Class   string `json:"classname"`
	Name    string `json:"name"`
	Outcome string `json:"outcome"`
	Flaky   bool   `json:"flaky,omitempty"`
}

func (e exp) key() string { return fmt.Sprintf("%q|%q|%s", e.Class, e.Name, e.Outcome) }

func (d *doc) expected() []exp {
	var out []exp
	var walkGo func(c tcase)
	walkGo = func(c tcase) {
		out = append(out, exp{Name: c.Name, Outcome: c.Outcome})
		for _, s := range c.Sub {
			walkGo(s)
		}
	}
	var walkSuite func(s suite)
	walkSuite = func(s suite) {
		for _, c := range s.Cases {
			if d.Format == "gotest" {
				walkGo(c)
			} else {
				o := c.Outcome
				if o == oFail && c.RerunErr > 0 {
					o = oError // reference: never passed, never skipped, errored at least once => errored
				}
				out = append(out, exp{Class: c.Class, Name: c.Name, Outcome: o, Flaky: c.FlakyFail+c.FlakyErr > 0})
			}
		}
		for _, n := range s.Nested {
			walkSuite(n)
		}
	}
	for _, s := range d.Suites {
		walkSuite(s)
	}
	return out
}

// ---------------------------------------------------------------------------------------------
// pools

var junitNames = [][]string{
	{"testAdd", "test_sub", "shouldWork", "t1", "CaseInsensitive", "test.with.dots"},
	{"a<b", "x&y", `say "hi"`, "it's", "a>b", "]]>", `<testcase name="ghost"/>`, "&amp;", "&#60;", "<!-- c -->", "<![CDATA[x]]>", `"`, "'", "a&&b<<c"},
	{"测试", "tést_ünï", "😀ok", "Ωmega", "名前<1>"},
	{"has space", " lead", "trail ", "tab\there", "line\nbreak", "two  spaces"},
	{"test[1]", "test(x=1, y=2)", "a/b/c", "test[a<b]", "p[\"k\"]", "t#01"},
}

var junitClasses = []string{"", "pkg.Class", "com.example.FooTest", "com.example.Täst", "a&b.C", "mod::tests", "x<y>", "pkg.Class$Inner"}

var messages = []string{"", "boom", "expected <1> but was <2>", `a & b "quoted" 'single'`, "]]> end", "múlti\nline", "<failure>nested?</failure>", "&lt;already escaped&gt;", "100% wrong"}

var bodies = []string{"", "traceback line 1\n  at foo(Bar.java:12)", "assert a < b && c > d", "<testcase name=\"fake-in-body\"/>", "]]>", "x ]]> y ]]> z", "plain"}

var sysouts = []string{"log line", "<testcase name=\"fake-in-sysout\" classname=\"z\"><failure/></testcase>", "=== RUN   TestFakeInXML\n--- FAIL: TestFakeInXML (0.00s)", "a & b < c", "]]>"}

var times = []string{"", "0", "0.001", "12.5", "0.000", "3", "1234.567"}

var goNames = []string{"TestAdd", "TestSub_two", "TestÜber", "Test<x>", "Test&y", `Test"q"`, "Test'q'", "Test世界", "TestA1", "Test_", "TestWith.Dot", "TestEq=1", "Test[0]", "Test#01", "TestZ"}

var goSubs = []string{"sub_1", "case#01", "a=b", "x<y", "名", "with_space", "q&a", "0"}

var goMsgs = []string{"expected <1> & got \"2\"", "something happened", "x_test.go:3: nested", "100% done", "a ]]> b", "<testcase name=\"fake\"/>"}

func pick(rng *rand.Rand, ss []string) string { return ss[rng.Intn(len(ss))] }

func genJUnitName(rng *rand.Rand) string {
	grp := junitNames[0]
	if rng.Intn(2) == 0 {
		grp = junitNames[rng.Intn(len(junitNames))]
	}
	n := pick(rng, grp)
	if rng.Intn(6) == 0 {
		n += pick(rng, junitNames[1+rng.Intn(len(junitNames)-1)])
	}
	return n
}

var junitFeatures = []string{"decl", "bom", "leading-ws", "single-quote", "numeric-refs", "hex-refs", "expanded-empty", "comments", "cdata", "indent", "unknown-attrs", "unknown-children", "system-out", "suite-counts", "properties", "pi", "reordered-attrs", "reordered-children", "raw-gt", "trailing-ws", "doctype-less-standalone"}

var goFeatures = []string{"preamble", "output-lines", "parallel", "name-lines", "trailer", "exit-status", "coverage-line", "no-status-line", "tabs-in-run"}

func genOutcomeCase(rng *rand.Rand, c *tcase, junit bool) {
	switch r := rng.Intn(10); {
	case r < 4:
		c.Outcome = oPass
	case r < 6:
		c.Outcome = oFail
	case r < 8:
		if junit {
			c.Outcome = oError
		} else {
			c.Outcome = oFail
		}
	default:
		c.Outcome = oSkip
	}
	if !junit {
		return
	}
	if rng.Intn(5) == 0 {
		switch c.Outcome {
		case oPass:
			if rng.Intn(2) == 0 {
				c.FlakyFail = 1 + rng.Intn(2)
			} else {
				c.FlakyErr = 1 + rng.Intn(2)
			}
			if rng.Intn(4) == 0 {
				c.FlakyFail, c.FlakyErr = 1, 1
			}
		case oFail:
			c.RerunFail = 1 + rng.Intn(2)
			if rng.Intn(4) == 0 {
				c.RerunErr = 1
			}
		case oError:
			c.RerunErr = 1 + rng.Intn(2)
			if rng.Intn(4) == 0 {
				c.RerunFail = 1
			}
		}
	}
	c.Msg, c.Body, c.Time = pick(rng, messages), pick(rng, bodies), pick(rng, times)
	if rng.Intn(4) == 0 {
		c.Out = pick(rng, sysouts)
	}
}

func genJUnit(rng *rand.Rand) *doc {
	d := &doc{Format: "junit", Root: "testsuites"}
	switch rng.Intn(36) {
	case 0, 1, 2, 3, 4, 5, 6, 7, 8, 9, 10, 11:
		d.Root = "testsuite"
	case 12:
		d.Root = "testcase"
	}
	for _, f := range junitFeatures {
		p := 5
		if f == "bom" || f == "leading-ws" {
			// rare: they change what the format sniffer sees, and a document that trips over that would hide
			// anything else wrong with it
			p = 40
		}
		if rng.Intn(p) == 0 {
			d.Features = append(d.Features, f)
		}
	}
	if rng.Intn(3) == 0 {
		d.Features = nil // plenty of completely plain documents too
	}
	ns := 1
	if d.Root == "testsuites" {
		ns = rng.Intn(4) // 0 = empty <testsuites/>
		if rng.Intn(3) == 0 {
			ns = 1 + rng.Intn(3)
		}
	}
	genSuite := func() suite {
		s := suite{Name: pick(rng, []string{"s", "suite one", "a&b", "pkg.Suite", "测试套件", ""}), Pkg: pick(rng, []string{"", "p", "p.q"})}
		nc := rng.Intn(6)
		if rng.Intn(8) == 0 {
			nc = 0
		}
		for j := 0; j < nc; j++ {
			c := tcase{Class: pick(rng, junitClasses), Name: genJUnitName(rng)}
			if j > 0 && rng.Intn(5) == 0 { // repeated case
				prev := s.Cases[rng.Intn(len(s.Cases))]
				c.Class, c.Name = prev.Class, prev.Name
			}
			genOutcomeCase(rng, &c, true)
			s.Cases = append(s.Cases, c)
		}
		return s
	}
	for i := 0; i < ns; i++ {
		s := genSuite()
		if d.Root != "testcase" && rng.Intn(40) == 0 {
			n := genSuite()
			if len(n.Cases) > 0 {
				s.Nested = append(s.Nested, n)
			}
		}
		d.Suites = append(d.Suites, s)
	}
	if d.Root == "testcase" {
		c := tcase{Class: pick(rng, junitClasses), Name: genJUnitName(rng)}
		genOutcomeCase(rng, &c, true)
		d.Suites = []suite{{Cases: []tcase{c}}}
	}
	d.normalise()
	return d
}

// normalise removes feature combinations that would make the document ill-formed.
func (d *doc) normalise() {
	var out []string
	for _, f := range d.Features {
		switch f {
		case "leading-ws":
			if d.has("decl") || d.has("bom") { // an XML declaration must be the very first thing
				continue
			}
		case "hex-refs":
			if d.has("numeric-refs") {
				continue
			}
		case "doctype-less-standalone":
			if !d.has("decl") {
				continue
			}
		}
		out = append(out, f)
	}
	d.Features = out
}

func genGo(rng *rand.Rand) *doc {
	d := &doc{Format: "gotest", GoPkg: pick(rng, []string{"example.com/pkg", "pkg", "github.com/a/b-c/d_e", "command-line-arguments"})}
	for _, f := range goFeatures {
		if rng.Intn(4) == 0 {
			d.Features = append(d.Features, f)
		}
	}
	if rng.Intn(3) == 0 {
		d.Features = []string{"trailer"}
	}
	n := 1 + rng.Intn(6)
	s := suite{}
	for j := 0; j < n; j++ {
		c := tcase{Name: pick(rng, goNames)}
		if j > 0 && rng.Intn(6) == 0 {
			c.Name = s.Cases[rng.Intn(len(s.Cases))].Name // as with -count=2
		}
		genOutcomeCase(rng, &c, false)
		c.Msg = pick(rng, goMsgs)
		if rng.Intn(4) == 0 {
			used := map[string]int{}
			for k, m := 0, 1+rng.Intn(3); k < m; k++ {
				sub := pick(rng, goSubs)
				used[sub]++
				if used[sub] > 1 { // go test itself makes sibling subtest names unique this way
					sub = fmt.Sprintf("%s#%02d", sub, used[sub]-1)
				}
				sc := tcase{Name: c.Name + "/" + sub}
				genOutcomeCase(rng, &sc, false)
				sc.Msg = pick(rng, goMsgs)
				if rng.Intn(5) == 0 {
					ssc := tcase{Name: sc.Name + "/" + pick(rng, goSubs)}
					genOutcomeCase(rng, &ssc, false)
					sc.Sub = append(sc.Sub, ssc)
				}
				c.Sub = append(c.Sub, sc)
			}
		}
		s.Cases = append(s.Cases, c)
	}
	d.Suites = []suite{s}
	return d
}

// ---------------------------------------------------------------------------------------------
// JUnit XML writer (hand-written; encoding/xml is what the code under test uses)

type xw struct {
	d  *doc
	sb strings.Builder
	n  int // running counter that makes "reordered" choices deterministic
}

// started: something other than a byte order mark has been written (only the leading-ws feature may
// put white space in front of the document).
func (w *xw) started() bool {
	return strings.TrimPrefix(w.sb.String(), "\xef\xbb\xbf") != ""
}

func (w *xw) attrVal(s string) string {
	q := byte('"')
	if w.d.has("single-quote") {
		q = '\''
	}
	var sb strings.Builder
	sb.WriteByte(q)
	ref := func(c rune, named string) {
		switch {
		case w.d.has("numeric-refs"):
			fmt.Fprintf(&sb, "&#%d;", c)
		case w.d.has("hex-refs"):
			fmt.Fprintf(&sb, "&#x%X;", c)
		default:
			sb.WriteString(named)
		}
	}
	for _, c := range s {
		switch c {
		case '<':
			ref(c, "&lt;")
		case '&':
			ref(c, "&amp;")
		case '>':
			if w.d.has("raw-gt") {
				sb.WriteRune(c)
			} else {
				ref(c, "&gt;")
			}
		case '"':
			if q == '"' {
				ref(c, "&quot;")
			} else {
				sb.WriteRune(c)
			}
		case '\'':
			if q == '\'' {
				ref(c, "&apos;")
			} else {
				sb.WriteRune(c)
			}
		case '\n', '\t', '\r':
			fmt.Fprintf(&sb, "&#%d;", c) // literal white space in attributes is subject to normalisation
		default:
			sb.WriteRune(c)
		}
	}
	sb.WriteByte(q)
	return sb.String()
}

func (w *xw) text(s string) string {
	if s == "" {
		return ""
	}
	if w.d.has("cdata") {
		return "<![CDATA[" + strings.ReplaceAll(s, "]]>", "]]]]><![CDATA[>") + "]]>"
	}
	r := strings.NewReplacer("&", "&amp;", "<", "&lt;", "]]>", "]]&gt;")
	return r.Replace(s)
}

func (w *xw) nl(depth int) {
	if w.d.has("indent") && w.started() {
		w.sb.WriteString("\n" + strings.Repeat("  ", depth))
	}
}

func (w *xw) attrs(pairs [][2]string) string {
	w.n++
	if w.d.has("reordered-attrs") && len(pairs) > 1 {
		k := w.n % len(pairs)
		pairs = append(append([][2]string{}, pairs[k:]...), pairs[:k]...)
	}
	var sb strings.Builder
	for _, p := range pairs {
		sb.WriteString(" " + p[0] + "=" + w.attrVal(p[1]))
	}
	return sb.String()
}

func (w *xw) misc(depth int) {
	if w.d.has("comments") {
		w.nl(depth)
		w.sb.WriteString(`<!-- <testcase name="ghost-in-comment" classname="g"><failure message="no"/></testcase> -->`)
	}
	if w.d.has("pi") {
		w.nl(depth)
		w.sb.WriteString(`<?harness keep="going"?>`)
	}
}

func (w *xw) flaky(tag string, n int, c tcase, depth int) {
	for i := 0; i < n; i++ {
		w.nl(depth)
		w.sb.WriteString("<" + tag + w.attrs([][2]string{{"message", c.Msg}, {"type", "T" + tag}}) + ">" + w.text(c.Body))
		if w.d.has("system-out") {
			w.sb.WriteString("<system-out>" + w.text("retry output") + "</system-out>")
		}
		w.sb.WriteString("</" + tag + ">")
	}
}

func (w *xw) testcase(c tcase, depth int) {
	w.nl(depth)
	a := [][2]string{{"name", c.Name}}
	if c.Class != "" || w.n%3 == 0 {
		a = append(a, [2]string{"classname", c.Class})
	}
	if c.Time != "" {
		a = append(a, [2]string{"time", c.Time})
	}
	if w.d.has("unknown-attrs") {
		a = append(a, [2]string{"file", "src/x<y>.py"}, [2]string{"line", "12"}, [2]string{"status", "run"}, [2]string{"assertions", "3"})
	}
	w.sb.WriteString("<testcase" + w.attrs(a))
	var kids []func()
	main := func(tag string) func() {
		return func() {
			w.nl(depth + 1)
			var at [][2]string
			if c.Msg != "" || tag == "skipped" && w.n%2 == 0 {
				at = append(at, [2]string{"message", c.Msg})
			}
			if tag != "skipped" && (c.Msg != "" || w.n%2 == 0) {
				at = append(at, [2]string{"type", "T"})
			}
			if c.Body == "" && !w.d.has("expanded-empty") {
				w.sb.WriteString("<" + tag + w.attrs(at) + "/>")
			} else {
				w.sb.WriteString("<" + tag + w.attrs(at) + ">" + w.text(c.Body) + "</" + tag + ">")
			}
		}
	}
	switch c.Outcome {
	case oFail:
		kids = append(kids, main("failure"))
	case oError:
		kids = append(kids, main("error"))
	case oSkip:
		kids = append(kids, main("skipped"))
	}
	if c.FlakyFail > 0 {
		kids = append(kids, func() { w.flaky("flakyFailure", c.FlakyFail, c, depth+1) })
	}
	if c.FlakyErr > 0 {
		kids = append(kids, func() { w.flaky("flakyError", c.FlakyErr, c, depth+1) })
	}
	if c.RerunFail > 0 {
		kids = append(kids, func() { w.flaky("rerunFailure", c.RerunFail, c, depth+1) })
	}
	if c.RerunErr > 0 {
		kids = append(kids, func() { w.flaky("rerunError", c.RerunErr, c, depth+1) })
	}
	if c.Out != "" || w.d.has("system-out") {
		out := c.Out
		if out == "" {
			out = "<testcase name=\"fake-in-sysout\"><error/></testcase>"
		}
		kids = append(kids, func() {
			w.nl(depth + 1)
			w.sb.WriteString("<system-out>" + w.text(out) + "</system-out>")
			w.nl(depth + 1)
			w.sb.WriteString("<system-err>" + w.text("stderr & more") + "</system-err>")
		})
	}
	if w.d.has("unknown-children") {
		kids = append(kids, func() {
			w.nl(depth + 1)
			w.sb.WriteString("<properties><property" + w.attrs([][2]string{{"name", "k"}, {"value", "v<1>"}}) + "/></properties>")
		})
	}
	if w.d.has("reordered-children") && len(kids) > 1 {
		k := w.n % len(kids)
		kids = append(append([]func(){}, kids[k:]...), kids[:k]...)
	}
	if len(kids) == 0 && !w.d.has("expanded-empty") {
		w.sb.WriteString("/>")
		return
	}
	w.sb.WriteString(">")
	for _, k := range kids {
		k()
	}
	if w.d.has("comments") && len(kids) > 0 {
		w.nl(depth + 1)
		w.sb.WriteString("<!-- <failure message=\"ghost\"/> -->")
	}
	w.nl(depth)
	w.sb.WriteString("</testcase>")
}

func countOutcomes(s suite) (tests, fails, errs, skips int) {
	for _, c := range s.Cases {
		tests++
		switch c.Outcome {
		case oFail:
			fails++
		case oError:
			errs++
		case oSkip:
			skips++
		}
	}
	return
}

func (w *xw) suite(s suite, depth int) {
	w.nl(depth)
	a := [][2]string{{"name", s.Name}}
	if s.Pkg != "" {
		a = append(a, [2]string{"package", s.Pkg})
	}
	if w.d.has("suite-counts") {
		t, f, e, k := countOutcomes(s)
		a = append(a, [2]string{"tests", fmt.Sprint(t)}, [2]string{"failures", fmt.Sprint(f)}, [2]string{"errors", fmt.Sprint(e)}, [2]string{"skipped", fmt.Sprint(k)},
			[2]string{"time", "1.5"}, [2]string{"timestamp", "2020-01-02T03:04:05"}, [2]string{"hostname", "h"})
	}
	w.sb.WriteString("<testsuite" + w.attrs(a))
	if len(s.Cases) == 0 && len(s.Nested) == 0 && !w.d.has("properties") && !w.d.has("expanded-empty") && !w.d.has("comments") && !w.d.has("system-out") {
		w.sb.WriteString("/>")
		return
	}
	w.sb.WriteString(">")
	if w.d.has("properties") {
		w.nl(depth + 1)
		w.sb.WriteString("<properties>")
		w.nl(depth + 2)
		w.sb.WriteString("<property" + w.attrs([][2]string{{"name", "java.version"}, {"value", "1&2"}}) + "/>")
		w.nl(depth + 2)
		w.sb.WriteString("<property" + w.attrs([][2]string{{"name", "cached"}, {"value", "maybe"}}) + "></property>")
		w.nl(depth + 1)
		w.sb.WriteString("</properties>")
	}
	for i, c := range s.Cases {
		if i == 1 {
			w.misc(depth + 1)
		}
		w.testcase(c, depth+1)
	}
	for _, n := range s.Nested {
		w.suite(n, depth+1)
	}
	if w.d.has("system-out") {
		w.nl(depth + 1)
		w.sb.WriteString("<system-out>" + w.text("suite out <testcase name=\"fake-at-suite-level\"/>") + "</system-out>")
		w.nl(depth + 1)
		w.sb.WriteString("<system-err></system-err>")
	}
	w.misc(depth + 1)
	w.nl(depth)
	w.sb.WriteString("</testsuite>")
}

func renderJUnit(d *doc) []byte {
	w := &xw{d: d}
	if d.has("bom") {
		w.sb.WriteString("\xef\xbb\xbf")
	}
	if d.has("leading-ws") {
		w.sb.WriteString("\n  ")
	}
	if d.has("decl") {
		q := `"`
		if d.has("single-quote") {
			q = "'"
		}
		w.sb.WriteString("<?xml version=" + q + "1.0" + q + " encoding=" + q + "UTF-8" + q)
		if d.has("doctype-less-standalone") {
			w.sb.WriteString(" standalone=" + q + "yes" + q)
		}
		w.sb.WriteString("?>")
		if !d.has("indent") {
			w.sb.WriteString("\n")
		}
	}
	if d.has("comments") && (d.has("decl") || d.has("leading-ws") || d.has("bom")) {
		// a comment before the root element is only generated when the document already starts with something
		// else, so that "starts with <!--" is not an extra sniffing variant hidden inside the comments feature
		w.nl(0)
		w.sb.WriteString("<!-- generated -->")
	}
	switch d.Root {
	case "testsuites":
		w.nl(0)
		a := [][2]string{}
		if d.has("suite-counts") {
			t := 0
			for _, s := range d.Suites {
				t += len(s.Cases)
			}
			a = append(a, [2]string{"name", "all"}, [2]string{"tests", fmt.Sprint(t)}, [2]string{"time", "2.25"})
		}
		if len(d.Suites) == 0 && !d.has("expanded-empty") {
			w.sb.WriteString("<testsuites" + w.attrs(a) + "/>")
			break
		}
		w.sb.WriteString("<testsuites" + w.attrs(a) + ">")
		for _, s := range d.Suites {
			w.suite(s, 1)
		}
		w.nl(0)
		w.sb.WriteString("</testsuites>")
	case "testsuite":
		w.suite(d.Suites[0], 0)
	case "testcase":
		w.testcase(d.Suites[0].Cases[0], 0)
	}
	if d.has("trailing-ws") {
		w.sb.WriteString("\n\n")
	}
	return []byte(w.sb.String())
}

// ---------------------------------------------------------------------------------------------
// `go test -v` writer

func goResult(o string) string {
	switch o {
	case oPass:
		return "PASS"
	case oSkip:
		return "SKIP"
	}
	return "FAIL"
}

func renderGo(d *doc) []byte {
	var sb strings.Builder
	if d.has("preamble") {
		sb.WriteString("some start-up log line\nanother: value=1 <x> & y\n")
	}
	sep := "   "
	if d.has("tabs-in-run") {
		sep = "  \t"
	}
	anyFail := false
	var runLines func(c tcase)
	runLines = func(c tcase) {
		sb.WriteString("=== RUN" + sep + c.Name + "\n")
		if d.has("parallel") && len(c.Sub) == 0 {
			sb.WriteString("=== PAUSE " + c.Name + "\n=== CONT  " + c.Name + "\n")
		}
		if d.has("output-lines") {
			if d.has("name-lines") {
				sb.WriteString("=== NAME  " + c.Name + "\n")
			}
			sb.WriteString("    x_test.go:12: " + c.Msg + "\n")
		}
		for _, s := range c.Sub {
			runLines(s)
		}
	}
	var endLines func(c tcase, depth int)
	endLines = func(c tcase, depth int) {
		if c.Outcome != oPass && c.Outcome != oSkip {
			anyFail = true
		}
		fmt.Fprintf(&sb, "%s--- %s: %s (0.%02ds)\n", strings.Repeat("    ", depth), goResult(c.Outcome), c.Name, len(c.Name)%100)
		if c.Outcome == oSkip && d.has("output-lines") {
			fmt.Fprintf(&sb, "%s    x_test.go:7: skipping: %s\n", strings.Repeat("    ", depth), c.Msg)
		}
		for _, s := range c.Sub {
			endLines(s, depth+1)
		}
	}
	for _, c := range d.Suites[0].Cases {
		runLines(c)
		endLines(c, 0)
	}
	if !d.has("no-status-line") {
		if anyFail {
			sb.WriteString("FAIL\n")
		} else {
			sb.WriteString("PASS\n")
		}
	}
	if d.has("coverage-line") {
		sb.WriteString("coverage: 61.5% of statements\n")
	}
	if d.has("exit-status") && anyFail {
		sb.WriteString("exit status 1\n")
	}
	if d.has("trailer") {
		if anyFail {
			sb.WriteString("FAIL\t" + d.GoPkg + "\t0.012s\n")
		} else {
			sb.WriteString("ok  \t" + d.GoPkg + "\t0.012s\n")
		}
	}
	return []byte(sb.String())
}

func render(d *doc) []byte {
	if d.Format == "gotest" {
		return renderGo(d)
	}
	return renderJUnit(d)
}

func sortedFeatures(d *doc) string {
	f := append([]string(nil), d.Features...)
	sort.Strings(f)
	if len(f) == 0 {
		return "plain"
	}
	return strings.Join(f, "+")
}

// C37 — command location expansions name the files the command can use.
// Monitor: generated repositories built by the real plz binary. Producers (one output, several
// outputs, outputs in sub-directories, named outputs, directory outputs, filegroups, binaries, binaries
// with entry points; package and file names with shell metacharacters) are consumed by genrules
// whose commands pass every $(location) / $(locations) / $(out_location) / $(out_locations) /
// $(dir) / $(out_dir) / $(exe) expansion UNQUOTED to a recording function: number of shell words,
// every word, and the content found at the place the sequence promises (build directory for the
// plain forms, repository root for the out_ forms, as is when absolute). Every produced file holds
// a unique token, so "the path of that dependency's output" is decided by content, not by name.
// Negative consumers (label that is not a dependency, $(location) on several outputs, $(exe) on a
// non-binary, $(location) on a target without outputs) must fail to build without running.
package c37

import (
	"fmt"
	"math/rand"
	"os"
	"path/filepath"
	"sort"
	"strconv"
	"strings"
	"sync"
	"testing"
	"time"

	"verifharness/e2e"
	x "verifharness/e2ealib"
	"verifharness/lib"
)

// ---------------------------------------------------------------------------------------------
// Names

// Characters Please's quote() wraps, and inert punctuation: expansions must survive unquoted use.
var safeOutChars = []string{";", "&", "(", ")", "<", ">", "|", ",", "+", "=", "@", "%", "~", "#", "^", "!"}
var safePkgChars = []string{";", "<", ">", ",", "+", "@", "%", "~", "#", "^", "!"} // no "=": a relative path starting with name= is a shell assignment

// Shell-significant characters that quote() does not handle (DESIGN §5 suspect).
type unsafeFeature struct{ Name, Char string }

var unsafeFeatures = []unsafeFeature{{"space", " "}, {"single-quote", "'"}, {"double-quote", "\""}, {"dollar", "$"}, {"backtick", "`"}}

func shq(s string) string { return "'" + strings.ReplaceAll(s, "'", `'\''`) + "'" }

var nameSeq = map[*rand.Rand]int{}

// plainName returns an alphanumeric name that is unique within the repository being generated.
func plainName(rng *rand.Rand, stem string) string {
	nameSeqMu.Lock()
	nameSeq[rng]++
	k := nameSeq[rng]
	nameSeqMu.Unlock()
	return fmt.Sprintf("%s%d%s", stem, k, x.Token(rng, 2))
}

var nameSeqMu sync.Mutex

// decorate puts ch somewhere inside a plain name (never first, never last).
func decorate(rng *rand.Rand, base, ch string) string {
	at := 1 + rng.Intn(len(base)-1)
	s := base[:at] + ch + base[at:]
	if ch == "$" { // make it look like a variable reference that is not set in the build environment
		s = base[:at] + "$zq" + base[at:]
	}
	return s
}

// ---------------------------------------------------------------------------------------------
// Model

type outFile struct {
	Path  string `json:"path"` // relative to the package
	Token string `json:"token"`
	Group string `json:"group,omitempty"`
	Dir   bool   `json:"dir,omitempty"` // a directory output holding one file with the token
	Exe   bool   `json:"exe,omitempty"` // a script that prints the token
}

// content is what the file holds.
func (o outFile) content() string {
	if o.Exe {
		return "#!/bin/sh\nprintf %s " + o.Token + "\n"
	}
	return o.Token
}

type producer struct {
	Pkg    string            `json:"pkg"`
	Name   string            `json:"name"`
	Kind   string            `json:"kind"` // single multi named binary binary-ep filegroup empty dirout
	Outs   []outFile         `json:"outs"`
	EPs    map[string]string `json:"entry_points,omitempty"`
	Binary bool              `json:"binary,omitempty"`
}

func (p *producer) label() string { return "//" + p.Pkg + ":" + p.Name }

type check struct {
	K     int    `json:"k"`
	Seq   string `json:"sequence"`
	Arg   string `json:"arg"`  // as written inside $( )
	Prod  int    `json:"prod"` // -1: a source file of the consumer's package
	EP    string `json:"entry_point,omitempty"`
	Group string `json:"named_group,omitempty"` // the consumer depends on label|group only
	Role  string `json:"role"`                  // srcs deps tools local
	Local string `json:"local_file,omitempty"`
	Token string `json:"local_token,omitempty"`
}

type consumer struct {
	ID     string   `json:"id"`
	Pkg    string   `json:"pkg"`
	Name   string   `json:"name"`
	Srcs   []string `json:"srcs,omitempty"`
	Deps   []string `json:"deps,omitempty"`
	Tools  []string `json:"tools,omitempty"`
	Checks []check  `json:"checks"`
	// Class: "regular", "unquoted/<feature>", a special class, or for negatives "not-rejected/<class>"
	Class    string `json:"class"`
	Negative bool   `json:"negative,omitempty"`
	Cmd      string `json:"cmd"`
}

func (c *consumer) label() string { return "//" + c.Pkg + ":" + c.Name }

type repo struct {
	Prods  []*producer       `json:"producers"`
	Cons   []*consumer       `json:"consumers"`
	Locals map[string]string `json:"local_sources,omitempty"` // repo-relative path -> content
}

var allSeqs = []string{"location", "locations", "out_location", "out_locations", "dir", "out_dir", "exe"}

func isOut(seq string) bool { return strings.HasPrefix(seq, "out_") }

// ---------------------------------------------------------------------------------------------
// Generation

type gen struct {
	rng   *rand.Rand
	r     *repo
	vlog  string
	root  string
	pkgs  []string
	nCons int
}

func (g *gen) tok() string { return x.Token(g.rng, 14) }

func (g *gen) outName(stem, ext string) string {
	n := plainName(g.rng, stem)
	switch g.rng.Intn(3) {
	case 0:
		n = decorate(g.rng, n, x.Choose(g.rng, safeOutChars))
	case 1:
		if g.rng.Intn(2) == 0 {
			n = "s" + x.Token(g.rng, 2) + "/" + n
		}
	}
	return n + ext
}

func (g *gen) pkgName(i int) string {
	n := plainName(g.rng, fmt.Sprintf("p%d", i))
	if g.rng.Intn(3) == 0 {
		n = decorate(g.rng, n, x.Choose(g.rng, safePkgChars))
	}
	if g.rng.Intn(4) == 0 {
		n = n + "/" + plainName(g.rng, "q")
	}
	return n
}

func (g *gen) newProducer(kind, pkg string) *producer {
	p := &producer{Pkg: pkg, Name: plainName(g.rng, "t"), Kind: kind}
	switch kind {
	case "single":
		p.Outs = []outFile{{Path: g.outName("o", ".txt"), Token: g.tok()}}
	case "multi":
		n := 2 + g.rng.Intn(2)
		for i := 0; i < n; i++ {
			p.Outs = append(p.Outs, outFile{Path: g.outName(fmt.Sprintf("m%d", i), ".txt"), Token: g.tok()})
		}
	case "named":
		p.Outs = []outFile{{Path: g.outName("na", ".txt"), Token: g.tok(), Group: "ga"}, {Path: g.outName("nb", ".txt"), Token: g.tok(), Group: "gb"}}
		if g.rng.Intn(2) == 0 {
			p.Outs = append(p.Outs, outFile{Path: g.outName("nc", ".txt"), Token: g.tok(), Group: "gb"})
		}
	case "named1":
		// a single named group holding several files: one name, but more than one output
		p.Outs = []outFile{{Path: g.outName("n1a", ".txt"), Token: g.tok(), Group: "ga"}, {Path: g.outName("n1b", ".txt"), Token: g.tok(), Group: "ga"}}
	case "binary":
		p.Binary = true
		p.Outs = []outFile{{Path: g.outName("b", ".sh"), Token: g.tok(), Exe: true}}
	case "binary-ep":
		p.Binary = true
		p.Outs = []outFile{{Path: g.outName("e0", ".sh"), Token: g.tok(), Exe: true}, {Path: g.outName("e1", ".sh"), Token: g.tok(), Exe: true}}
		p.EPs = map[string]string{"main": p.Outs[0].Path, "aux": p.Outs[1].Path}
	case "filegroup":
		n := 1 + g.rng.Intn(2)
		for i := 0; i < n; i++ {
			p.Outs = append(p.Outs, outFile{Path: g.outName(fmt.Sprintf("f%d", i), ".dat"), Token: g.tok()})
		}
	case "empty":
	case "dirout":
		p.Outs = []outFile{{Path: plainName(g.rng, "dd"), Token: g.tok(), Dir: true}}
	default:
		panic(kind)
	}
	g.r.Prods = append(g.r.Prods, p)
	return p
}

// expected outputs a check may see.
func (p *producer) outsFor(ep, group string) []outFile {
	if ep != "" {
		for _, o := range p.Outs {
			if o.Path == p.EPs[ep] {
				return []outFile{o}
			}
		}
	}
	if group != "" {
		var r []outFile
		for _, o := range p.Outs {
			if o.Group == group {
				r = append(r, o)
			}
		}
		return r
	}
	return p.Outs
}

// applicable positive sequences for a producer (without entry point / with the given entry point).
func applicable(p *producer, ep string) []string {
	n := len(p.Outs)
	if ep != "" {
		n = 1
	}
	var s []string
	if n == 1 {
		s = append(s, "location", "out_location")
	}
	if n >= 1 {
		s = append(s, "locations", "out_locations", "dir", "out_dir")
	}
	if p.Binary && n == 1 {
		s = append(s, "exe")
	}
	return s
}

func (g *gen) written(p *producer, fromPkg, ep string) string {
	l := p.label()
	if p.Pkg == fromPkg && g.rng.Intn(2) == 0 {
		l = ":" + p.Name
	}
	if ep != "" {
		l += "|" + ep
	}
	return l
}

func (g *gen) newConsumer(pkg, class string) *consumer {
	c := &consumer{ID: fmt.Sprintf("c%d", g.nCons), Pkg: pkg, Name: fmt.Sprintf("c%d", g.nCons), Class: class}
	g.nCons++
	g.r.Cons = append(g.r.Cons, c)
	return c
}

func addUnique(ss []string, s string) []string {
	for _, e := range ss {
		if e == s {
			return ss
		}
	}
	return append(ss, s)
}

// depend records the dependency in the consumer under the role and returns the label as written there.
func (g *gen) depend(c *consumer, p *producer, role, annot string) {
	l := p.label()
	if p.Pkg == c.Pkg && g.rng.Intn(2) == 0 {
		l = ":" + p.Name
	}
	if annot != "" {
		l += "|" + annot
	}
	switch role {
	case "srcs":
		c.Srcs = addUnique(c.Srcs, l)
	case "deps":
		c.Deps = addUnique(c.Deps, l)
	case "tools":
		c.Tools = addUnique(c.Tools, l)
	}
}

func (g *gen) addCheck(c *consumer, p *producer, prodIdx int, seq, role, ep, group string) {
	c.Checks = append(c.Checks, check{K: len(c.Checks), Seq: seq, Arg: g.written(p, c.Pkg, ep), Prod: prodIdx, EP: ep, Group: group, Role: role})
}

func (g *gen) prodIndex(p *producer) int {
	for i, q := range g.r.Prods {
		if q == p {
			return i
		}
	}
	panic("unknown producer")
}

func generate(rng *rand.Rand, idx int, vlog, root string) *repo {
	g := &gen{rng: rng, r: &repo{Locals: map[string]string{}}, vlog: vlog, root: root}
	np := 2 + rng.Intn(2)
	for i := 0; i < np; i++ {
		g.pkgs = append(g.pkgs, g.pkgName(i))
	}
	conPkg := g.pkgs[0]
	// producers for the regular consumers
	kinds := []string{"single", "multi", "named", "binary", "binary-ep", "filegroup", "dirout", "single", "multi", "binary"}
	rng.Shuffle(len(kinds), func(i, j int) { kinds[i], kinds[j] = kinds[j], kinds[i] })
	var regular []*producer
	nreg := 4 + rng.Intn(3)
	for i := 0; i < nreg; i++ {
		pkg := g.pkgs[rng.Intn(len(g.pkgs))]
		if rng.Intn(8) == 0 {
			pkg = "" // the root package; $(dir) of it is only used by the special consumer below
		}
		regular = append(regular, g.newProducer(kinds[i], pkg))
	}
	// --- regular consumers: several checks each, names that must work ---
	ncon := 2 + rng.Intn(2)
	for ci := 0; ci < ncon; ci++ {
		pkg := g.pkgs[rng.Intn(len(g.pkgs))]
		c := g.newConsumer(pkg, "regular")
		perm := rng.Perm(len(regular))
		for _, pi := range perm[:2+rng.Intn(2)] {
			p := regular[pi]
			role := []string{"srcs", "srcs", "deps", "tools"}[rng.Intn(4)]
			ep, annot := "", ""
			if p.Kind == "binary-ep" && role != "tools" && rng.Intn(2) == 0 {
				ep = []string{"main", "aux"}[rng.Intn(2)]
				if role == "srcs" && rng.Intn(2) == 0 { // label|annotation is accepted in srcs and tools only
					annot = ep
				}
			}
			g.depend(c, p, role, annot)
			seqs := applicable(p, ep)
			rng.Shuffle(len(seqs), func(i, j int) { seqs[i], seqs[j] = seqs[j], seqs[i] })
			n := 1 + rng.Intn(2)
			for _, s := range seqs {
				if n == 0 {
					break
				}
				if p.Pkg == "" && (s == "dir" || (s == "exe" && role != "tools")) {
					continue // see the root-package special consumer
				}
				g.addCheck(c, p, g.prodIndex(p), s, role, ep, "")
				n--
			}
		}
		if rng.Intn(3) == 0 { // a source file of the consumer's own package
			name := g.outName("l", ".src")
			name = strings.ReplaceAll(name, ")", "_") // the sequence syntax itself ends at the first ')'
			tokn := g.tok()
			g.r.Locals[filepath.Join(c.Pkg, name)] = tokn
			c.Srcs = addUnique(c.Srcs, name)
			c.Checks = append(c.Checks, check{K: len(c.Checks), Seq: "location", Arg: name, Prod: -1, Role: "local", Local: name, Token: tokn})
		}
	}
	// --- special structural consumers, one check each, rotating with the case index ---
	switch idx % 4 {
	case 0: // a target of the root package
		c := g.newConsumer(conPkg, "root-package")
		role := []string{"srcs", "deps"}[rng.Intn(2)]
		if (idx/4)%2 == 0 { // $(dir) of it
			p := g.newProducer([]string{"single", "multi"}[rng.Intn(2)], "")
			g.depend(c, p, role, "")
			g.addCheck(c, p, g.prodIndex(p), "dir", role, "", "")
		} else { // $(exe) of a binary of it that is not a tool
			p := g.newProducer("binary", "")
			g.depend(c, p, role, "")
			g.addCheck(c, p, g.prodIndex(p), "exe", role, "", "")
		}
	case 1: // an entry point of a producer that is only a tool
		p := g.newProducer("binary-ep", g.pkgs[rng.Intn(len(g.pkgs))])
		c := g.newConsumer(conPkg, "tool-entry-point")
		ep := []string{"main", "aux"}[rng.Intn(2)]
		annot := ""
		if rng.Intn(2) == 0 {
			annot = ep
		}
		g.depend(c, p, "tools", annot)
		g.addCheck(c, p, g.prodIndex(p), []string{"exe", "location"}[(idx/4)%2], "tools", ep, "")
	case 2: // depending on one named output group only
		p := g.newProducer("named", g.pkgs[rng.Intn(len(g.pkgs))])
		c := g.newConsumer(conPkg, "named-group")
		group := []string{"ga", "gb"}[rng.Intn(2)]
		g.depend(c, p, "srcs", group)
		g.addCheck(c, p, g.prodIndex(p), "locations", "srcs", "", group)
	case 3: // $(location) of a target without outputs
		p := g.newProducer("empty", g.pkgs[rng.Intn(len(g.pkgs))])
		c := g.newConsumer(conPkg, "not-rejected/zero-outputs")
		c.Negative = true
		role := []string{"srcs", "deps"}[rng.Intn(2)]
		g.depend(c, p, role, "")
		g.addCheck(c, p, g.prodIndex(p), "location", role, "", "")
	}
	// --- a name with a shell-significant character that quote() does not know, one check ---
	if idx%3 == 0 {
		f := unsafeFeatures[(idx/3)%len(unsafeFeatures)]
		place := rng.Intn(3)
		if f.Char == "$" && place == 1 {
			place = 0 // package names cannot contain $
		}
		c := g.newConsumer(conPkg, "unquoted/"+f.Name)
		switch place {
		case 0: // output name
			kind := []string{"single", "multi", "binary"}[rng.Intn(3)]
			p := g.newProducer(kind, g.pkgs[rng.Intn(len(g.pkgs))])
			o := &p.Outs[rng.Intn(len(p.Outs))]
			ext := filepath.Ext(o.Path)
			o.Path = decorate(rng, plainName(rng, "u"), f.Char) + ext
			role := []string{"srcs", "deps", "tools"}[rng.Intn(3)]
			g.depend(c, p, role, "")
			var seqs []string
			for _, s := range applicable(p, "") {
				if s != "dir" && s != "out_dir" {
					seqs = append(seqs, s)
				}
			}
			g.addCheck(c, p, g.prodIndex(p), x.Choose(rng, seqs), role, "", "")
		case 1: // package name
			pkg := decorate(rng, plainName(rng, "pu"), f.Char)
			p := g.newProducer([]string{"single", "multi", "binary"}[rng.Intn(3)], pkg)
			role := []string{"srcs", "deps"}[rng.Intn(2)]
			g.depend(c, p, role, "")
			g.addCheck(c, p, g.prodIndex(p), x.Choose(rng, applicable(p, "")), role, "", "")
		case 2: // source file of the consumer's package
			name := decorate(rng, plainName(rng, "lu"), f.Char) + ".src"
			tokn := g.tok()
			g.r.Locals[filepath.Join(c.Pkg, name)] = tokn
			c.Srcs = addUnique(c.Srcs, name)
			c.Checks = append(c.Checks, check{K: 0, Seq: "location", Arg: name, Prod: -1, Role: "local", Local: name, Token: tokn})
		}
	}
	// --- negative consumers ---
	nneg := 1 + rng.Intn(2)
	for ni := 0; ni < nneg; ni++ {
		switch rng.Intn(3) {
		case 0: // label that is not a dependency (it exists and is visible; another producer is a dependency)
			p := regular[rng.Intn(len(regular))]
			c := g.newConsumer(conPkg, "not-rejected/not-a-dependency")
			c.Negative = true
			for _, q := range regular {
				if q != p {
					g.depend(c, q, []string{"srcs", "deps", "tools"}[rng.Intn(3)], "")
					break
				}
			}
			seq := x.Choose(rng, allSeqs)
			g.addCheck(c, p, g.prodIndex(p), seq, "none", "", "")
		case 1: // single-output sequence on a target with several outputs
			var cands []*producer
			for _, q := range regular {
				if len(q.Outs) > 1 {
					cands = append(cands, q)
				}
			}
			if len(cands) == 0 {
				cands = []*producer{g.newProducer("multi", g.pkgs[rng.Intn(len(g.pkgs))])}
			}
			if rng.Intn(2) == 0 {
				// several outputs behind ONE name (a single named group): still not a single output
				cands = []*producer{g.newProducer("named1", g.pkgs[rng.Intn(len(g.pkgs))])}
			}
			p := cands[rng.Intn(len(cands))]
			c := g.newConsumer(conPkg, "not-rejected/multiple-outputs")
			c.Negative = true
			role := []string{"srcs", "deps", "tools"}[rng.Intn(3)]
			g.depend(c, p, role, "")
			seqs := []string{"location", "out_location"}
			if p.Binary {
				seqs = append(seqs, "exe")
			}
			g.addCheck(c, p, g.prodIndex(p), x.Choose(rng, seqs), role, "", "")
		case 2: // $(exe) of something that is not a binary
			var cands []*producer
			for _, q := range regular {
				if !q.Binary && len(q.Outs) == 1 {
					cands = append(cands, q)
				}
			}
			if len(cands) == 0 {
				cands = []*producer{g.newProducer("single", g.pkgs[rng.Intn(len(g.pkgs))])}
			}
			p := cands[rng.Intn(len(cands))]
			c := g.newConsumer(conPkg, "not-rejected/exe-non-binary")
			c.Negative = true
			role := []string{"srcs", "tools"}[rng.Intn(2)]
			g.depend(c, p, role, "")
			g.addCheck(c, p, g.prodIndex(p), "exe", role, "", "")
		}
	}
	for _, c := range g.r.Cons {
		c.Cmd = g.command(c)
	}
	nameSeqMu.Lock()
	delete(nameSeq, rng)
	nameSeqMu.Unlock()
	return g.r
}

// command renders the self-recording command of a consumer.
func (g *gen) command(c *consumer) string {
	var sb strings.Builder
	v := filepath.Join(g.vlog, c.ID)
	sb.WriteString(x.Probe(g.vlog, c.ID) + "\n")
	fmt.Fprintf(&sb, "V=%s; R=%s; mkdir -p \"$V\"\n", shq(v), shq(g.root+"/"))
	sb.WriteString(`content() { if [ -f "$1" ]; then cat "$1" > "$2"; elif [ -d "$1" ]; then find "$1" -type f -exec cat {} + > "$2"; fi; }` + "\n")
	sb.WriteString(`rec() { k=$1; b=$2; shift 2; echo $# > "$V/$k.n"; j=0; for w in "$@"; do j=$((j+1)); printf '%s' "$w" > "$V/$k.w$j"; case "$w" in /*) p=$w;; *) p=$b$w;; esac; content "$p" "$V/$k.c$j"; done; }` + "\n")
	sb.WriteString(`recd() { k=$1; b=$2; n=$3; shift 3; outs=("${@:1:$n}"); shift $n; echo $# > "$V/$k.n"; j=0; for w in "$@"; do j=$((j+1)); printf '%s' "$w" > "$V/$k.w$j"; done; [ $# -ge 1 ] || return 0; case "$1" in /*) p=$1;; *) p=$b$1;; esac; j=0; for o in "${outs[@]}"; do j=$((j+1)); content "$p/$o" "$V/$k.d$j"; done; }` + "\n")
	for _, ck := range c.Checks {
		base := `""`
		if isOut(ck.Seq) {
			base = `"$R"`
		}
		seq := fmt.Sprintf("$(%s %s)", ck.Seq, ck.Arg)
		switch ck.Seq {
		case "dir", "out_dir":
			outs := g.expectedOuts(ck)
			var lits []string
			for _, o := range outs {
				lits = append(lits, shq(o.Path))
			}
			fmt.Fprintf(&sb, "recd %d %s %d %s %s\n", ck.K, base, len(lits), strings.Join(lits, " "), seq)
		case "exe":
			fmt.Fprintf(&sb, "%s > \"$V/%d.out\" 2> \"$V/%d.err\"; echo $? > \"$V/%d.rc\"\n", seq, ck.K, ck.K, ck.K)
		default:
			fmt.Fprintf(&sb, "rec %d %s %s\n", ck.K, base, seq)
		}
	}
	sb.WriteString("touch \"$V/end\"; echo done > \"$OUT\"\n")
	return sb.String()
}

func (g *gen) expectedOuts(ck check) []outFile { return expectedOuts(g.r, ck) }

func expectedOuts(r *repo, ck check) []outFile {
	if ck.Prod < 0 {
		return []outFile{{Path: ck.Local, Token: ck.Token}}
	}
	return r.Prods[ck.Prod].outsFor(ck.EP, ck.Group)
}

// ---------------------------------------------------------------------------------------------
// Rendering

func (p *producer) render() string {
	if p.Kind == "filegroup" || p.Kind == "empty" {
		r := x.NewRule("filegroup", p.Name)
		var srcs []string
		for _, o := range p.Outs {
			srcs = append(srcs, o.Path)
		}
		r.List("srcs", srcs)
		r.List("visibility", []string{"PUBLIC"})
		return r.Render()
	}
	r := x.NewRule("genrule", p.Name)
	var cmd []string
	named := map[string][]string{}
	var outs []string
	for _, o := range p.Outs {
		switch {
		case o.Dir:
			cmd = append(cmd, fmt.Sprintf("mkdir -p %s && printf '%%s' %s > %s", shq(o.Path+"/sub"), shq(o.Token), shq(o.Path+"/sub/f.txt")))
		case p.Binary:
			if d := filepath.Dir(o.Path); d != "." {
				cmd = append(cmd, "mkdir -p "+shq(d))
			}
			cmd = append(cmd, fmt.Sprintf("printf '%%s\\n' '#!/bin/sh' 'printf %%s %s' > %s && chmod +x %s", o.Token, shq(o.Path), shq(o.Path)))
		default:
			if d := filepath.Dir(o.Path); d != "." {
				cmd = append(cmd, "mkdir -p "+shq(d))
			}
			cmd = append(cmd, fmt.Sprintf("printf '%%s' %s > %s", shq(o.Token), shq(o.Path)))
		}
		if o.Group != "" {
			named[o.Group] = append(named[o.Group], o.Path)
		} else {
			outs = append(outs, o.Path)
		}
	}
	if len(named) > 0 {
		r.Add("outs", x.PyDictList(named))
	} else {
		r.List("outs", outs)
	}
	r.Str("cmd", strings.Join(cmd, " && "))
	if p.Binary {
		r.Add("binary", "True")
	}
	if p.EPs != nil {
		r.Add("entry_points", x.PyDict(p.EPs))
	}
	r.List("visibility", []string{"PUBLIC"})
	return r.Render()
}

func (c *consumer) render() string {
	r := x.NewRule("genrule", c.Name)
	if len(c.Srcs) > 0 {
		r.List("srcs", c.Srcs)
	}
	if len(c.Deps) > 0 {
		r.List("deps", c.Deps)
	}
	if len(c.Tools) > 0 {
		r.List("tools", c.Tools)
	}
	r.List("outs", []string{c.Name + ".out"})
	r.Str("cmd", c.Cmd)
	return r.Render()
}

func (r *repo) files() map[string]string {
	files := map[string]string{".plzconfig": x.BaseConfig("", "")}
	build := map[string]*strings.Builder{}
	add := func(pkg, s string) {
		if build[pkg] == nil {
			build[pkg] = &strings.Builder{}
		}
		build[pkg].WriteString(s)
	}
	for _, p := range r.Prods {
		add(p.Pkg, p.render())
		if p.Kind == "filegroup" {
			for _, o := range p.Outs {
				files[filepath.Join(p.Pkg, o.Path)] = o.Token
			}
		}
	}
	for _, c := range r.Cons {
		add(c.Pkg, c.render())
	}
	for pkg, sb := range build {
		files[filepath.Join(pkg, "BUILD")] = sb.String()
	}
	for p, c := range r.Locals {
		files[p] = c
	}
	return files
}

// ---------------------------------------------------------------------------------------------
// Oracle

func readV(dir, name string) (string, bool) { return x.ReadFile(filepath.Join(dir, name)) }

// roleClass names the structural class of a check for witness keys.
func roleClass(r *repo, ck check) string {
	s := map[string]string{"srcs": "dep", "deps": "dep", "tools": "tool", "local": "source-file", "none": "none"}[ck.Role]
	if ck.EP != "" {
		s += "+entry-point"
	}
	if ck.Group != "" {
		s += "+named-group"
	}
	if ck.Prod >= 0 {
		p := r.Prods[ck.Prod]
		if p.Pkg == "" {
			s += "+root-package"
		}
		if p.Kind == "dirout" {
			s += "+directory-output"
		}
	}
	return s
}

type finding struct{ Failure, What string }

// judge evaluates the record of one check; nil means the expansion did what the sequence promises.
func judge(r *repo, vdir string, ck check) *finding {
	exp := expectedOuts(r, ck)
	if ck.Seq == "exe" {
		rc, ok := readV(vdir, fmt.Sprintf("%d.rc", ck.K))
		if !ok {
			return &finding{"build-failed", "the command stopped before this sequence was evaluated"}
		}
		out, _ := readV(vdir, fmt.Sprintf("%d.out", ck.K))
		if strings.TrimSpace(rc) != "0" || out != exp[0].Token {
			errs, _ := readV(vdir, fmt.Sprintf("%d.err", ck.K))
			return &finding{"exe-does-not-run-the-binary", fmt.Sprintf("running the expansion exits %s and prints %q (stderr %q), the binary prints %q", strings.TrimSpace(rc), out, lib.Tail(errs, 200), exp[0].Token)}
		}
		return nil
	}
	ns, ok := readV(vdir, fmt.Sprintf("%d.n", ck.K))
	if !ok {
		return &finding{"build-failed", "the command stopped before this sequence was evaluated"}
	}
	n, _ := strconv.Atoi(strings.TrimSpace(ns))
	var words []string
	for j := 1; j <= n; j++ {
		w, _ := readV(vdir, fmt.Sprintf("%d.w%d", ck.K, j))
		words = append(words, w)
	}
	if ck.Seq == "dir" || ck.Seq == "out_dir" {
		if n != 1 {
			return &finding{"word-count", fmt.Sprintf("expands to %d shell words %q, expected one directory", n, words)}
		}
		for j, o := range exp {
			c, ok := readV(vdir, fmt.Sprintf("%d.d%d", ck.K, j+1))
			if !ok {
				return &finding{"directory-lacks-output", fmt.Sprintf("expands to %q but output %q of the dependency is not in that directory", words[0], o.Path)}
			}
			if c != o.content() {
				return &finding{"wrong-file", fmt.Sprintf("%q/%q holds %q, the dependency's output holds %q", words[0], o.Path, c, o.content())}
			}
		}
		return nil
	}
	if ck.Group != "" {
		// The consumer depends on one named output group only. Whether the expansion lists that group or all
		// outputs is left open; every listed word must exist and be an output of the target, and the group's
		// own outputs must be listed.
		all := map[string]bool{}
		for _, o := range r.Prods[ck.Prod].Outs {
			all[o.content()] = true
		}
		seen := map[string]bool{}
		for j := 1; j <= n; j++ {
			c, ok := readV(vdir, fmt.Sprintf("%d.c%d", ck.K, j))
			if !ok {
				return &finding{"missing-path", fmt.Sprintf("word %q (of %q) does not exist where the sequence promises it", words[j-1], words)}
			}
			if !all[c] {
				return &finding{"wrong-file", fmt.Sprintf("word %q holds %q, which is no output of the dependency", words[j-1], c)}
			}
			seen[c] = true
		}
		for _, o := range exp {
			if !seen[o.content()] {
				return &finding{"word-count", fmt.Sprintf("words %q do not include output %q of the named group", words, o.Path)}
			}
		}
		return nil
	}
	if n != len(exp) {
		return &finding{"word-count", fmt.Sprintf("expands to %d shell words %q for %d output path(s)", n, words, len(exp))}
	}
	var got, want []string
	for j := 1; j <= n; j++ {
		c, ok := readV(vdir, fmt.Sprintf("%d.c%d", ck.K, j))
		if !ok {
			return &finding{"missing-path", fmt.Sprintf("word %q does not exist where the sequence promises it", words[j-1])}
		}
		got = append(got, c)
	}
	for _, o := range exp {
		want = append(want, o.content())
	}
	sort.Strings(got)
	sort.Strings(want)
	if strings.Join(got, ",") != strings.Join(want, ",") {
		return &finding{"wrong-file", fmt.Sprintf("words %q name files holding %q, the dependency's outputs hold %q", words, got, want)}
	}
	return nil
}

func TestC37(t *testing.T) {
	r := lib.Start("C37")
	defer lib.End(t, r)
	r.Rule = "case = one generated consumer command (genrule) using 1-6 location sequences on its dependencies, built by plz in a generated repository; distinct by the command text + the definitions of the producers it names; non-trivial = positive commands with at least one sequence on a dependency whose package or output name contains a non-alphanumeric character other than . _ /, or that has several outputs, or any negative command"
	r.Assumes = []string{
		"every produced file holds a unique 56-bit token; a word 'names the dependency's output' iff the content found there is that output's token",
		"expansions are used unquoted as arguments of a bash function, which is the use the statement's 'single shell word per path' describes",
		"plain forms are resolved against the action's working directory, out_ forms against the repository root (a literal baked into the command), absolute words as they are",
	}
	bin := lib.PlzBin(false)
	n := r.Pick(24, 600)
	r.ForEach("repo", n, 8, func(i int, rng *rand.Rand) {
		sb := e2e.NewSandbox(filepath.Join(r.Scratch(), fmt.Sprintf("r%d", i)))
		defer lib.RemoveAll(sb.Work)
		rp := generate(rng, i, sb.VLog, sb.Repo)
		files := rp.files()
		if err := lib.WriteTree(sb.Repo, files); err != nil {
			panic(err)
		}
		wit := func(c *consumer, extra map[string]any) map[string]any {
			w := map[string]any{"consumer": c, "producers": rp.Prods, "build_files": buildFilesOnly(files)}
			for k, v := range extra {
				w[k] = v
			}
			return w
		}
		// one invocation for all positive consumers
		var pos []string
		for _, c := range rp.Cons {
			if !c.Negative {
				pos = append(pos, c.label())
			}
		}
		res := sb.Plz(bin, nil, 240*time.Second, append([]string{"build", "--keep_going"}, pos...)...)
		if res.TimedOut {
			r.Inconclusive(fmt.Sprintf("repo %d: plz build timed out", i))
			return
		}
		r.Obs("invocations", 1)
		probe := sb.ReadProbe()
		for _, v := range probe.Violations {
			r.Obs("probe_dup_lines", 1)
			_ = v
		}
		for _, c := range rp.Cons {
			if c.Negative {
				continue
			}
			r.Case(caseHash(rp, c), nontrivialCase(rp, c))
			r.Obs("positive_commands", 1)
			vdir := filepath.Join(sb.VLog, c.ID)
			_, ended := readV(vdir, "end")
			if ended {
				r.Obs("positive_commands_ran_to_end", 1)
			}
			for _, ck := range c.Checks {
				r.Obs("sequences_checked", 1)
				r.ObsDistinct("sequence_role_classes", ck.Seq+"/"+roleClass(rp, ck))
				f := judge(rp, vdir, ck)
				if f != nil && f.Failure == "build-failed" && !x.Ran(probe.Started, c.ID) {
					f = &finding{"rejected-before-running", "plz refused to build the target; its command never started"}
				}
				if f == nil {
					r.Obs("sequences_ok", 1)
					if c.Class == "regular" {
						for _, o := range expectedOuts(rp, ck) {
							r.Obs("paths_verified_by_content", 1)
							_ = o
						}
					}
					continue
				}
				ew := map[string]any{"check": ck, "failure": f.Failure, "plz_exit": res.Exit, "stderr": lib.Tail(res.Stderr, 1200)}
				var key string
				if strings.HasPrefix(c.Class, "unquoted/") {
					key = c.Class
				} else {
					key = ck.Seq + "/" + roleClass(rp, ck) + "/" + f.Failure
				}
				r.Violation(key, fmt.Sprintf("%s: $(%s %s) %s", c.label(), ck.Seq, ck.Arg, f.What), wit(c, ew), i)
				if f.Failure == "build-failed" || f.Failure == "rejected-before-running" {
					break // the later sequences of this command were never reached
				}
			}
			if r.WantSample() && c.Class == "regular" && ended && nontrivialCase(rp, c) {
				r.Sample(map[string]any{"consumer": c, "producers": rp.Prods})
			}
		}
		// one invocation per negative consumer
		for _, c := range rp.Cons {
			if !c.Negative {
				continue
			}
			r.Case(caseHash(rp, c), true)
			sb.ResetProbe()
			res := sb.Plz(bin, nil, 240*time.Second, "build", c.label())
			if res.TimedOut {
				r.Inconclusive(fmt.Sprintf("repo %d: plz build of a negative consumer timed out", i))
				continue
			}
			r.Obs("invocations", 1)
			r.Obs("negative_commands", 1)
			ck := c.Checks[0]
			started := x.Ran(sb.ReadProbe().Started, c.ID)
			ew := map[string]any{"check": ck, "plz_exit": res.Exit, "command_started": started, "stderr": lib.Tail(res.Stderr, 1200)}
			if res.Exit == 0 || started {
				vdir := filepath.Join(sb.VLog, c.ID)
				var words []string
				if ns, ok := readV(vdir, fmt.Sprintf("%d.n", ck.K)); ok {
					nn, _ := strconv.Atoi(strings.TrimSpace(ns))
					for j := 1; j <= nn; j++ {
						w, _ := readV(vdir, fmt.Sprintf("%d.w%d", ck.K, j))
						words = append(words, w)
					}
				}
				ew["expanded_to"] = words
				r.Violation(c.Class+"/"+ck.Seq, fmt.Sprintf("%s: $(%s %s) is not rejected: plz exits %d, the command ran=%v, expansion %q", c.label(), ck.Seq, ck.Arg, res.Exit, started, words), wit(c, ew), i)
				continue
			}
			r.Obs("negative_commands_rejected", 1)
			r.ObsDistinct("negative_classes", c.Class+"/"+ck.Seq)
			if strings.Contains(res.Stderr, c.label()) || strings.Contains(res.Stdout, c.label()) {
				r.Obs("rejections_naming_the_rule", 1)
			}
		}
	})
	r.RequireObserved("invocations", "positive_commands_ran_to_end", "sequences_ok", "paths_verified_by_content", "negative_commands_rejected")
}

func buildFilesOnly(files map[string]string) map[string]string {
	out := map[string]string{}
	for p, c := range files {
		if filepath.Base(p) == "BUILD" {
			out[p] = c
		}
	}
	return out
}

func caseHash(rp *repo, c *consumer) string {
	parts := []string{c.Cmd, lib.JSON(c.Srcs), lib.JSON(c.Deps), lib.JSON(c.Tools)}
	for _, ck := range c.Checks {
		if ck.Prod >= 0 {
			parts = append(parts, lib.JSON(rp.Prods[ck.Prod]))
		}
	}
	return lib.Hash(parts...)
}

func nontrivialCase(rp *repo, c *consumer) bool {
	special := func(s string) bool {
		return strings.IndexFunc(s, func(r rune) bool {
			return !(r >= 'a' && r <= 'z' || r >= 'A' && r <= 'Z' || r >= '0' && r <= '9' || r == '.' || r == '_' || r == '/')
		}) >= 0
	}
	for _, ck := range c.Checks {
		if ck.Prod < 0 {
			if special(ck.Local) || special(c.Pkg) {
				return true
			}
			continue
		}
		p := rp.Prods[ck.Prod]
		if special(p.Pkg) || len(p.Outs) > 1 {
			return true
		}
		for _, o := range p.Outs {
			if special(o.Path) {
				return true
			}
		}
	}
	return false
}

var _ = os.Getenv

// C08 — any change to a build-relevant attribute changes the rule hash.
// Monitor: targets are built in-process through the same core.BuildTarget setters the BUILD parser
// uses (src/parse/asp/targets.go) and hashed with the real build.RuleHash. For every attribute of
// the statement a pool of adversarial values is enumerated (all lists / maps over a small hostile
// alphabet) and all unordered pairs are compared through a hash->value multimap, in an empty and in
// a populated target; seeded random near-duplicate definitions and "adjacent attribute" moves follow.
// srcs / named srcs / tools / named tools have a second pool over every kind of build input (plain
// labels, labels annotated with a named output or entry point, package files, system files, PATH tools).
// Two semantically different definitions with equal rule hashes refute the property.
package c08

import (
	"encoding/hex"
	"encoding/json"
	"fmt"
	"math/rand"
	"os"
	"path/filepath"
	"regexp"
	"sort"
	"strings"
	"sync"
	"testing"
	"time"

	"github.com/thought-machine/please/src/build"
	"github.com/thought-machine/please/src/core"

	"verifharness/iplib"
	"verifharness/lib"
)

// A spec is one target definition, already in semantic normal form: attributes that Please treats
// as sets (outs, optional_outs, deps, labels, requires, output_dirs, pass_env names) are sorted and
// duplicate-free, so two specs describe different definitions iff their JSON differs.
type spec struct {
	Cmd          string              `json:"cmd,omitempty"`
	Srcs         []string            `json:"srcs,omitempty"`
	NamedSrcs    map[string][]string `json:"named_srcs,omitempty"`
	Outs         []string            `json:"outs,omitempty"`
	NamedOuts    map[string][]string `json:"named_outs,omitempty"`
	OptOuts      []string            `json:"optional_outs,omitempty"`
	Deps         []string            `json:"deps,omitempty"`
	Tools        []string            `json:"tools,omitempty"`
	NamedTools   map[string][]string `json:"named_tools,omitempty"`
	Env          map[string]string   `json:"env,omitempty"`
	PassEnv      []string            `json:"pass_env,omitempty"`
	PassEnvVals  map[string]string   `json:"pass_env_values,omitempty"` // the caller's environment for those names
	Labels       []string            `json:"labels,omitempty"`
	Secrets      []string            `json:"secrets,omitempty"`
	NamedSecrets map[string][]string `json:"named_secrets,omitempty"`
	Binary       bool                `json:"binary,omitempty"`
	Sandbox      bool                `json:"sandbox,omitempty"`
	OutputDirs   []string            `json:"output_dirs,omitempty"`
	EntryPoints  map[string]string   `json:"entry_points,omitempty"`
	TextFile     bool                `json:"text_file,omitempty"`
	FileContent  string              `json:"content,omitempty"`
	Requires     []string            `json:"requires,omitempty"`
	Provides     map[string][]string `json:"provides,omitempty"`
}

func (s spec) String() string { return lib.JSON(s) }

func sortedKeys[V any](m map[string]V) []string {
	ks := make([]string, 0, len(m))
	for k := range m {
		ks = append(ks, k)
	}
	sort.Strings(ks)
	return ks
}

const pkg = "pkg"

// input turns one entry of srcs / tools into the core.BuildInput parseSource in
// src/parse/asp/targets.go makes of it: a label (annotated with `|name` or not), a system file
// (absolute path), a tool found on the PATH (bare name in tools) or a file of the package.
func input(s string, tool bool) core.BuildInput {
	if core.LooksLikeABuildLabel(s) {
		l, ann := core.SplitLabelAnnotation(s)
		bl := core.ParseBuildLabel(l, pkg)
		if ann != "" {
			return core.AnnotatedOutputLabel{BuildLabel: bl, Annotation: ann}
		}
		return bl
	}
	if filepath.IsAbs(s) {
		return core.SystemFileLabel{Path: s}
	}
	if tool {
		return core.SystemPathLabel{Name: s, Path: []string{"/usr/bin", "/bin"}}
	}
	return core.FileLabel{File: s, Package: pkg}
}

// newTarget builds the target the way populateTarget in src/parse/asp/targets.go does.
func newTarget(s spec) *core.BuildTarget {
	t := core.NewBuildTarget(core.ParseBuildLabel("//"+pkg+":t", ""))
	t.IsBinary = s.Binary
	t.Sandbox = s.Sandbox
	t.IsTextFile = s.TextFile
	for _, o := range s.OutputDirs {
		t.AddOutputDirectory(o)
	}
	if s.PassEnv != nil {
		l := append([]string{}, s.PassEnv...)
		t.PassEnv = &l
	}
	if s.Binary {
		t.AddLabel("bin")
	}
	if s.TextFile {
		t.FileContent = s.FileContent
	}
	t.Command = s.Cmd
	for _, x := range s.Srcs {
		t.AddSource(input(x, false))
	}
	for _, n := range sortedKeys(s.NamedSrcs) {
		for _, x := range s.NamedSrcs[n] {
			t.AddNamedSource(n, input(x, false))
		}
	}
	for _, x := range s.Tools {
		t.AddTool(input(x, true))
	}
	for _, n := range sortedKeys(s.NamedTools) {
		for _, x := range s.NamedTools[n] {
			t.AddNamedTool(n, input(x, true))
		}
	}
	for _, x := range s.Outs {
		t.AddOutput(x)
	}
	for _, n := range sortedKeys(s.NamedOuts) {
		for _, x := range s.NamedOuts[n] {
			t.AddNamedOutput(n, x)
		}
	}
	for _, x := range s.OptOuts {
		t.AddOptionalOutput(x)
	}
	for _, x := range s.Deps {
		t.AddDependency(core.ParseBuildLabel(x, pkg))
	}
	for _, x := range s.Labels {
		t.AddLabel(x)
	}
	for _, x := range s.Requires {
		t.AddRequire(x)
	}
	for _, n := range sortedKeys(s.EntryPoints) {
		t.AddEntryPoint(n, s.EntryPoints[n])
	}
	if s.Env != nil {
		env := map[string]string{}
		for k, v := range s.Env {
			env[k] = v
		}
		t.Env = env
	}
	for _, x := range s.Secrets {
		t.AddSecret(x)
	}
	for _, n := range sortedKeys(s.NamedSecrets) {
		for _, x := range s.NamedSecrets[n] {
			t.AddNamedSecret(n, x)
		}
	}
	for _, n := range sortedKeys(s.Provides) {
		var ls []core.BuildLabel
		for _, x := range s.Provides[n] {
			ls = append(ls, core.ParseBuildLabel(x, pkg))
		}
		t.AddProvide(n, ls)
	}
	return t
}

type mon struct {
	r     *lib.Run
	state *core.BuildState
	envMu sync.Mutex // serialises everything that depends on the process environment
	mu    sync.Mutex
	best  map[string]*found
	// attributes found to have no influence on the hash at all
	unhashed map[string]bool
	kinds    map[string]bool // Go types of the build inputs that were hashed in the "inputs" pools
}

type found struct {
	a, b  spec
	hash  string
	size  int
	count int
	idx   int
	src   string
}

// hash computes the real (non-runtime, pre-build) rule hash of a fresh target.
func (m *mon) hash(s spec) string {
	if s.PassEnvVals != nil {
		m.envMu.Lock()
		defer m.envMu.Unlock()
		for k, v := range s.PassEnvVals {
			os.Setenv(k, v)
		}
		defer func() {
			for k := range s.PassEnvVals {
				os.Unsetenv(k)
			}
		}()
	}
	m.r.Obs("rule_hashes_computed", 1)
	return hex.EncodeToString(build.RuleHash(m.state, newTarget(s), false, false))
}

func (m *mon) record(key string, a, b spec, hash string, idx int, src string) {
	size := len(a.String()) + len(b.String())
	for _, sp := range []spec{a, b} {
		for _, mp := range []map[string]string{sp.Env, sp.EntryPoints} {
			for k := range mp {
				if strings.Contains(k, "=") { // legal but unusual: prefer witnesses with plain keys
					size += 1000
				}
			}
		}
	}
	m.mu.Lock()
	defer m.mu.Unlock()
	m.r.Obs("colliding_pairs", 1)
	f := m.best[key]
	if f == nil || size < f.size {
		n := &found{a: a, b: b, hash: hash, size: size, idx: idx, src: src}
		if f != nil {
			n.count = f.count
		}
		m.best[key] = n
		f = n
	}
	f.count++
}

// ---- attribute values --------------------------------------------------------------------------

// A value is one value of one attribute, with the byte stream a naive field-by-field writer would
// produce for it (used only to *name* the kind of collision, never to decide one).
type value struct {
	set    func(*spec)
	flat   string // entries concatenated in order, names included
	noName string // the sorted multiset of entries without group names (named attributes only)
	noAnn  string // label pools only: the value with the `|name` annotations of its labels removed
	n      int    // number of entries
	repr   string
}

type attribute struct {
	name string
	pool string // "" or the name of an additional value pool of the same attribute
	vals []value
	kind string // list | named | map | scalar
}

// id names the (attribute, pool) pair.
func (a attribute) id() string {
	if a.pool == "" {
		return a.name
	}
	return a.name + "#" + a.pool
}

// stripAnn removes the annotation of an annotated label ("//p:a|x" -> "//p:a").
func stripAnn(x string) string {
	if core.LooksLikeABuildLabel(x) {
		x, _ = core.SplitLabelAnnotation(x)
	}
	return x
}

// inputs marks a as the "inputs" pool of its attribute: values over every kind of core.BuildInput
// (plain and annotated labels, package files, system files, PATH tools).
func inputs(a attribute) attribute {
	a.pool = "inputs"
	return a
}

var alphabet = []string{"a", "b", "ab", "ba", "c", "bc", "abc", "a=b", "b=c", "=", "a b", "x"}
var labelAlpha = []string{"//p:a", "//p:b", "//p:ab", "//pa:b", "//p/a:b", "//p:a_b"}

// tool labels are disjoint from dependency labels: a label that is both a tool and a dep is one
// dependency record in Please, and what that means for the action is not asserted here.
var toolAlpha = []string{"//t:a", "//t:b", "//t:ab", "//ta:b", "//t/a:b", "//t:a_b"}

// Input alphabets: what srcs and tools accept besides files resp. plain labels. An annotated label
// //p:a|x selects the named output (or entry point) x of //p:a, so //p:a, //p:a|b and //p:a|bc put
// different files into the action; the annotations share prefixes with each other and with the
// target names ("//p:a|bc" / "//p:ab|c" / "//p:ab"). Only one spelling per label is generated.
var srcInputAlpha = []string{"//p:a", "//p:a|a", "//p:a|b", "//p:a|bc", "//p:ab", "//p:ab|c", "//p:b|a", "a", "/a", "/a|b"}
var toolInputAlpha = []string{"//t:a", "//t:a|a", "//t:a|b", "//t:a|bc", "//t:ab", "//t:ab|c", "//t:b|a", "a", "ab", "/a"}

// requires used in contexts are disjoint from the label alphabet (a require is implicitly a label).
var ctxRequires = []string{"ra", "rb", "rab"}
var mapKeys = []string{"a", "b", "ab", "c", "a=b"}
var mapVals = []string{"", "a", "b", "c", "bc", "b=c", "a=b", "bc=d", "=", "b=cd", "cd"}
var groupNames = []string{"a", "b", "ab", "n"}

// lists returns all duplicate-free lists over alpha with at most max entries; sorted lists only
// when set is true (the attribute is a set in Please, insertion order does not matter).
func lists(alpha []string, max int, set bool) [][]string {
	out := [][]string{{}}
	var rec func(cur []string)
	rec = func(cur []string) {
		if len(cur) == max {
			return
		}
		for _, x := range alpha {
			dup := false
			for _, c := range cur {
				if c == x {
					dup = true
				}
			}
			if dup || (set && len(cur) > 0 && cur[len(cur)-1] >= x) {
				continue
			}
			n := append(append([]string{}, cur...), x)
			out = append(out, n)
			rec(n)
		}
	}
	rec(nil)
	return out
}

func listAttr(name string, alpha []string, max int, set bool, assign func(*spec, []string)) attribute {
	a := attribute{name: name, kind: "list"}
	for _, l := range lists(alpha, max, set) {
		l := l
		a.vals = append(a.vals, value{set: func(s *spec) {
			if len(l) > 0 {
				assign(s, l)
			} else {
				assign(s, nil)
			}
		}, flat: strings.Join(l, ""), noAnn: noAnnList(l), n: len(l), repr: lib.JSON(l)})
	}
	return a
}

// noAnnList is the list with annotations stripped ("" when no entry is a label: the notion does not apply).
func noAnnList(l []string) string {
	out := make([]string, len(l))
	any := false
	for i, x := range l {
		out[i] = stripAnn(x)
		any = any || core.LooksLikeABuildLabel(x)
	}
	if !any {
		return ""
	}
	return lib.JSON(out)
}

func namedAttr(name string, alpha []string, set bool, assign func(*spec, map[string][]string)) attribute {
	a := attribute{name: name, kind: "named"}
	ls := lists(alpha, 2, set)[1:] // non-empty groups
	add := func(m map[string][]string) {
		var flat, noName strings.Builder
		var all []string
		n := 0
		noAnn, anyLabel := map[string][]string{}, false
		for _, k := range sortedKeys(m) {
			flat.WriteString(k)
			for _, x := range m[k] {
				noAnn[k] = append(noAnn[k], stripAnn(x))
				anyLabel = anyLabel || core.LooksLikeABuildLabel(x)
				flat.WriteString(x)
				all = append(all, x)
				n++
			}
		}
		sort.Strings(all)
		noName.WriteString(strings.Join(all, "\x00"))
		v := value{set: func(s *spec) { assign(s, m) }, flat: flat.String(), noName: noName.String(), n: n, repr: lib.JSON(m)}
		if anyLabel {
			v.noAnn = lib.JSON(noAnn)
		}
		a.vals = append(a.vals, v)
	}
	for i, n1 := range groupNames {
		for _, l1 := range ls {
			add(map[string][]string{n1: l1})
			for _, n2 := range groupNames[i+1:] {
				for _, l2 := range ls {
					// a file may appear in one group only (AddNamedOutput keeps no cross-group check, but keep values realistic)
					clash := false
					for _, x := range l1 {
						for _, y := range l2 {
							if x == y {
								clash = true
							}
						}
					}
					if !clash {
						add(map[string][]string{n1: l1, n2: l2})
					}
				}
			}
		}
	}
	return a
}

func mapAttr(name string, assign func(*spec, map[string]string)) attribute {
	a := attribute{name: name, kind: "map"}
	add := func(m map[string]string) {
		var flat strings.Builder
		for _, k := range sortedKeys(m) {
			flat.WriteString(k + "=" + m[k])
		}
		a.vals = append(a.vals, value{set: func(s *spec) { assign(s, m) }, flat: flat.String(), n: len(m), repr: lib.JSON(m)})
	}
	for i, k1 := range mapKeys {
		for _, v1 := range mapVals {
			add(map[string]string{k1: v1})
			for _, k2 := range mapKeys[i+1:] {
				for _, v2 := range mapVals {
					add(map[string]string{k1: v1, k2: v2})
				}
			}
		}
	}
	return a
}

func scalarAttr(name string, vals []string, assign func(*spec, string)) attribute {
	a := attribute{name: name, kind: "scalar"}
	for _, v := range vals {
		v := v
		a.vals = append(a.vals, value{set: func(s *spec) { assign(s, v) }, flat: v, n: 1, repr: lib.JSON(v)})
	}
	return a
}

func attributes() []attribute {
	small := alphabet[:5]
	scalars := append(append([]string{""}, alphabet...), "a\x01", "\x01a", "\x02", "a\x02", "ab c", "a bc")
	as := []attribute{
		scalarAttr("cmd", scalars, func(s *spec, v string) { s.Cmd = v }),
		listAttr("srcs", alphabet, 3, false, func(s *spec, l []string) { s.Srcs = l }),
		inputs(listAttr("srcs", srcInputAlpha, 3, false, func(s *spec, l []string) { s.Srcs = l })),
		namedAttr("named_srcs", small, false, func(s *spec, m map[string][]string) { s.NamedSrcs = m }),
		inputs(namedAttr("named_srcs", []string{"//p:a", "//p:a|a", "//p:a|b", "//p:b|a", "a"}, false, func(s *spec, m map[string][]string) { s.NamedSrcs = m })),
		listAttr("outs", alphabet, 3, true, func(s *spec, l []string) { s.Outs = l }),
		namedAttr("named_outs", small, true, func(s *spec, m map[string][]string) { s.NamedOuts = m }),
		listAttr("optional_outs", alphabet, 3, true, func(s *spec, l []string) { s.OptOuts = l }),
		listAttr("deps", labelAlpha, 3, true, func(s *spec, l []string) { s.Deps = l }),
		// tools: label tools as a set (order is also seen by the source hash, so it is not asserted here)
		listAttr("tools", toolAlpha, 3, true, func(s *spec, l []string) { s.Tools = l }),
		inputs(listAttr("tools", toolInputAlpha, 3, true, func(s *spec, l []string) { s.Tools = l })),
		namedAttr("named_tools", toolAlpha[:4], true, func(s *spec, m map[string][]string) { s.NamedTools = m }),
		inputs(namedAttr("named_tools", []string{"//t:a", "//t:a|a", "//t:a|b", "//t:b|a", "a"}, true, func(s *spec, m map[string][]string) { s.NamedTools = m })),
		mapAttr("env", func(s *spec, m map[string]string) { s.Env = m }),
		listAttr("labels", alphabet, 3, true, func(s *spec, l []string) { s.Labels = l }),
		listAttr("secrets", alphabet, 3, false, func(s *spec, l []string) { s.Secrets = l }),
		namedAttr("named_secrets", small, false, func(s *spec, m map[string][]string) { s.NamedSecrets = m }),
		scalarAttr("binary", []string{"", "1"}, func(s *spec, v string) { s.Binary = v != "" }),
		scalarAttr("sandbox", []string{"", "1"}, func(s *spec, v string) { s.Sandbox = v != "" }),
		listAttr("output_dirs", alphabet, 3, true, func(s *spec, l []string) { s.OutputDirs = l }),
		mapAttr("entry_points", func(s *spec, m map[string]string) { s.EntryPoints = m }),
		scalarAttr("text_file_content", scalars, func(s *spec, v string) { s.TextFile = true; s.FileContent = v }),
		listAttr("requires", alphabet, 3, true, func(s *spec, l []string) { s.Requires = l }),
	}
	// provides: language -> one label (the common form) or two
	as = append(as, namedAttr("provides", labelAlpha[:4], true, func(s *spec, m map[string][]string) { s.Provides = m }))
	// pass_env values: the names are fixed, what varies is the caller's environment
	pe := attribute{name: "pass_env_values", kind: "map"}
	for _, v1 := range []string{"", "a", "b", "aC08_Y=", "aC08_Y=b", "C08_Y=", "=b", "ab"} {
		for _, v2 := range []string{"", "a", "b", "bC08_Y=", "C08_Y=b", "ab"} {
			v1, v2 := v1, v2
			pe.vals = append(pe.vals, value{set: func(s *spec) {
				s.PassEnv = []string{"C08_X", "C08_Y"}
				s.PassEnvVals = map[string]string{"C08_X": v1, "C08_Y": v2}
			}, flat: "C08_X=" + v1 + "C08_Y=" + v2, n: 2, repr: lib.JSON(map[string]string{"C08_X": v1, "C08_Y": v2})})
		}
	}
	as = append(as, pe)
	return as
}

// populated is a context in which every other attribute already has a value.
func populated() spec {
	return spec{
		Cmd: "cat $SRCS > $OUT", Srcs: []string{"s1", "s2"}, NamedSrcs: nil, Outs: []string{"o1"}, OptOuts: []string{"oo"},
		Deps: []string{"//d:d1"}, Tools: []string{"//tl:t1"}, Env: map[string]string{"E": "v"}, PassEnv: []string{"C08_P"},
		Labels: []string{"l1"}, Secrets: []string{"/sec/s"}, OutputDirs: []string{"od"}, EntryPoints: map[string]string{"ep": "o1"},
		Requires: []string{"rq"}, Provides: map[string][]string{"go": {"//pv:p"}},
	}
}

// mode names how two colliding values of one attribute relate.
func mode(kind string, x, y value) string {
	switch {
	case x.noAnn != "" && x.noAnn == y.noAnn && x.flat != y.flat:
		return "annotation-ignored" // the two values differ only in the `|name` of annotated labels
	case x.flat == y.flat && kind == "map" && x.n == y.n:
		return "kv-split"
	case x.flat == y.flat && kind == "named":
		if x.noName == y.noName {
			return "boundary-shift"
		}
		return "name-value-split"
	case x.flat == y.flat:
		return "boundary-shift"
	case kind == "named" && x.noName == y.noName:
		return "name-ignored"
	}
	return "value-ignored"
}

// ---- adjacent-attribute moves ------------------------------------------------------------------

type adjacent struct {
	name string
	gen  func(rng *rand.Rand) (spec, spec)
}

func tok(rng *rand.Rand) string { return []string{"k", "m", "mm", "km"}[rng.Intn(4)] }

func adjacents() []adjacent {
	return []adjacent{
		{"deps|srcs", func(rng *rand.Rand) (spec, spec) {
			t := tok(rng)
			return spec{Deps: []string{"//p:a" + t}}, spec{Deps: []string{"//p:a"}, Srcs: []string{t}}
		}},
		{"srcs|outs", func(rng *rand.Rand) (spec, spec) {
			t := tok(rng)
			return spec{Srcs: []string{"a", t}, Outs: []string{"z"}}, spec{Srcs: []string{"a"}, Outs: []string{t, "z"}}
		}},
		{"srcs|named_srcs", func(rng *rand.Rand) (spec, spec) {
			t := tok(rng)
			return spec{Srcs: []string{"a", t}}, spec{Srcs: []string{"a"}, NamedSrcs: map[string][]string{"n": {t}}}
		}},
		{"outs|named_outs", func(rng *rand.Rand) (spec, spec) {
			t := tok(rng)
			return spec{Outs: []string{"a", "n" + t}}, spec{Outs: []string{"a"}, NamedOuts: map[string][]string{"n": {t}}}
		}},
		{"outs|optional_outs", func(rng *rand.Rand) (spec, spec) {
			t := tok(rng)
			return spec{Outs: []string{"a", t}, OptOuts: []string{"z"}}, spec{Outs: []string{"a"}, OptOuts: []string{t, "z"}}
		}},
		{"optional_outs|labels", func(rng *rand.Rand) (spec, spec) {
			t := tok(rng)
			return spec{OptOuts: []string{"a", t}, Labels: []string{"z"}}, spec{OptOuts: []string{"a"}, Labels: []string{t, "z"}}
		}},
		{"labels|secrets", func(rng *rand.Rand) (spec, spec) {
			t := tok(rng)
			return spec{Labels: []string{"a", t}, Secrets: []string{"z"}}, spec{Labels: []string{"a"}, Secrets: []string{t, "z"}}
		}},
		{"output_dirs|entry_points", func(rng *rand.Rand) (spec, spec) {
			t := tok(rng)
			return spec{OutputDirs: []string{"a", t + "=v"}}, spec{OutputDirs: []string{"a"}, EntryPoints: map[string]string{t: "v"}}
		}},
		{"entry_points|env", func(rng *rand.Rand) (spec, spec) {
			t := tok(rng)
			return spec{EntryPoints: map[string]string{t: "v"}}, spec{Env: map[string]string{t: "v"}}
		}},
		{"env|text_file_content", func(rng *rand.Rand) (spec, spec) {
			t := tok(rng)
			return spec{TextFile: true, Env: map[string]string{"A": "v" + t}}, spec{TextFile: true, Env: map[string]string{"A": "v"}, FileContent: t}
		}},
	}
}

// ---- random near-duplicates --------------------------------------------------------------------

func randList(rng *rand.Rand, alpha []string, max int, set bool) []string {
	n := rng.Intn(max + 1)
	seen := map[string]bool{}
	var out []string
	for len(out) < n {
		x := alpha[rng.Intn(len(alpha))]
		if !seen[x] {
			seen[x] = true
			out = append(out, x)
		}
	}
	if set {
		sort.Strings(out)
	}
	return out
}

func randMap(rng *rand.Rand, max int) map[string]string {
	n := rng.Intn(max + 1)
	if n == 0 {
		return nil
	}
	m := map[string]string{}
	for len(m) < n {
		m[mapKeys[rng.Intn(len(mapKeys))]] = mapVals[rng.Intn(len(mapVals))]
	}
	return m
}

func nilIfEmpty(l []string) []string {
	if len(l) == 0 {
		return nil
	}
	return l
}

// randContext fills every attribute with something hostile.
func randContext(rng *rand.Rand) spec {
	s := spec{
		Cmd:        alphabet[rng.Intn(len(alphabet))],
		Srcs:       nilIfEmpty(randList(rng, alphabet, 3, false)),
		Outs:       nilIfEmpty(randList(rng, alphabet, 3, true)),
		OptOuts:    nilIfEmpty(randList(rng, alphabet, 2, true)),
		Deps:       nilIfEmpty(randList(rng, labelAlpha, 2, true)),
		Tools:      nilIfEmpty(randList(rng, toolAlpha, 2, true)),
		Env:        randMap(rng, 2),
		Labels:     nilIfEmpty(randList(rng, alphabet, 3, true)),
		Secrets:    nilIfEmpty(randList(rng, alphabet, 2, false)),
		Binary:     rng.Intn(2) == 0,
		Sandbox:    rng.Intn(2) == 0,
		OutputDirs: nilIfEmpty(randList(rng, alphabet, 2, true)),
		Requires:   nilIfEmpty(randList(rng, ctxRequires, 2, true)),
	}
	if rng.Intn(3) == 0 {
		s.TextFile = true
		s.FileContent = alphabet[rng.Intn(len(alphabet))]
	}
	if rng.Intn(2) == 0 {
		s.EntryPoints = randMap(rng, 2)
		for k := range s.EntryPoints {
			if k == "a=b" { // keep entry point names plain
				delete(s.EntryPoints, k)
			}
		}
		if len(s.EntryPoints) == 0 {
			s.EntryPoints = nil
		}
	}
	return s
}

var t0 = time.Now()

// dbg prints phase timings when VERIF_DEBUG is set (never used by the oracle).
func dbg(what string) {
	if os.Getenv("VERIF_DEBUG") != "" {
		fmt.Printf("DEBUG %6.1fs %s\n", time.Since(t0).Seconds(), what)
	}
}

func TestC08(t *testing.T) {
	iplib.Quiet()
	r := lib.Start("C08")
	defer lib.End(t, r)
	r.Rule = "per attribute of the statement: every value of an adversarial pool (all duplicate-free lists of <=3 entries over 12 hostile strings / all 1-2 entry maps over 5 keys x 11 values / all 1-2 group named lists; srcs, named srcs, tools and named tools additionally over an alphabet of build inputs of every kind: plain labels, labels annotated with a named output / entry point (//p:a|b), package files, system files, PATH tools), set on an otherwise empty target and on a fully populated one, hashed once and compared pairwise through a hash->value multimap; plus seeded pairs: two pool values of one attribute inside a random hostile context, and 10 kinds of adjacent-attribute moves. Distinct by the JSON of the definition(s); non-trivial = the attribute under test is non-empty"
	r.Assumes = []string{
		"targets are built with the core.BuildTarget setters in the order src/parse/asp/targets.go uses them; build.RuleHash(state,target,false,false) on a fresh target is the hash Please stores",
		"attributes that are sets in Please (outs, optional_outs, deps, labels, requires, output_dirs, tool labels) are generated sorted and duplicate-free, so reordering is never counted as a difference; empty list entries are not generated (the parser drops them)",
		"pass_env values are observed through the monitor process's own environment, serialised by a mutex",
	}
	m := &mon{r: r, state: iplib.NewState(), best: map[string]*found{}, unhashed: map[string]bool{}, kinds: map[string]bool{}}
	os.Setenv("C08_P", "ctx")

	if r.Replaying() {
		m.replay(t)
		m.report()
		return
	}

	attrs := attributes()
	type job struct {
		attr attribute
		ctx  spec
		name string
	}
	var jobs []job
	for _, a := range attrs {
		jobs = append(jobs, job{a, spec{}, "empty"}, job{a, populated(), "populated"})
	}
	r.ForEach("pools", len(jobs), 8, func(i int, _ *rand.Rand) {
		j := jobs[i]
		buckets := map[string][]int{}
		specs := make([]spec, len(j.attr.vals))
		for k, v := range j.attr.vals {
			s := cloneSpec(j.ctx)
			v.set(&s)
			specs[k] = s
			h := m.hash(s)
			buckets[h] = append(buckets[h], k)
			r.Case(s.String(), v.n > 0 && v.flat != "")
		}
		r.Obs("pool_pairs_compared", int64(len(specs)*(len(specs)-1)/2))
		r.ObsDistinct("attributes_exercised", j.attr.name)
		r.ObsDistinct("pools_exercised", j.attr.id())
		if j.attr.pool == "inputs" {
			for _, s := range specs {
				for _, in := range inputsOf(s) {
					k := fmt.Sprintf("%T", in)
					r.ObsDistinct("input_kinds_exercised", k)
					m.mu.Lock()
					m.kinds[k] = true
					m.mu.Unlock()
				}
			}
		}
		if len(buckets) == 1 && len(specs) > 2 {
			// The attribute has no influence on the hash at all: one finding, not one per mode.
			x, y := 0, 1
			for k := range specs {
				if len(j.attr.vals[k].repr) < len(j.attr.vals[x].repr) {
					x = k
				}
			}
			for k := range specs {
				if k != x && (y == x || len(j.attr.vals[k].repr) < len(j.attr.vals[y].repr)) {
					y = k
				}
			}
			for h := range buckets {
				m.record(j.attr.name+"/not-hashed", specs[x], specs[y], h, i, "pool/"+j.name)
			}
			m.mu.Lock()
			m.unhashed[j.attr.id()] = true
			m.mu.Unlock()
			return
		}
		for h, b := range buckets {
			if len(b) < 2 {
				continue
			}
			r.Obs("colliding_buckets", 1)
			r.Obs("colliding_pairs_in_pools", int64(len(b)*(len(b)-1)/2))
			// Every bucket with two different definitions is a refutation. To name the kinds of
			// collision in it without looking at all O(n^2) pairs, members are grouped by their
			// flat stream: pairs inside a group (smallest 24 members) and one pair per two groups.
			sort.Slice(b, func(x, y int) bool {
				if lx, ly := len(j.attr.vals[b[x]].repr), len(j.attr.vals[b[y]].repr); lx != ly {
					return lx < ly
				}
				return b[x] < b[y]
			})
			groups := map[string][]int{}
			var order []string
			for _, k := range b {
				f := j.attr.vals[k].flat
				if groups[f] == nil {
					order = append(order, f)
				}
				groups[f] = append(groups[f], k)
			}
			pair := func(x, y int) {
				sa, sb := specs[x], specs[y]
				if sa.String() == sb.String() {
					return // same definition reached twice
				}
				key := j.attr.name + "/" + mode(j.attr.kind, j.attr.vals[x], j.attr.vals[y])
				m.record(key, sa, sb, h, i, "pool/"+j.name)
			}
			for _, f := range order {
				g := groups[f]
				if len(g) > 24 {
					g = g[:24]
				}
				for x := 0; x < len(g); x++ {
					for y := x + 1; y < len(g); y++ {
						pair(g[x], g[y])
					}
				}
			}
			if len(order) > 40 {
				order = order[:40]
			}
			for x := 0; x < len(order); x++ {
				for y := x + 1; y < len(order); y++ {
					pair(groups[order[x]][0], groups[order[y]][0])
				}
			}
		}
	})
	r.Exhaustive = true
	dbg("pools done")
	total := 0
	for _, a := range attrs {
		total += len(a.vals)
	}
	r.Extra("exhaustive_scope", fmt.Sprintf("%d attributes, %d pool values in total, each in 2 contexts, all pairs within an attribute and context", len(attrs), total))

	adj := adjacents()
	r.ForEach("adjacent", r.Pick(400, 20000), 8, func(i int, rng *rand.Rand) {
		a := adj[i%len(adj)]
		sa, sb := a.gen(rng)
		r.Case(sa.String()+"|"+sb.String(), true)
		r.ObsDistinct("adjacent_pairs_exercised", a.name)
		if h := m.hash(sa); h == m.hash(sb) && sa.String() != sb.String() {
			m.record(a.name+"/adjacent-attribute", sa, sb, h, i, "adjacent")
		}
	})

	dbg("adjacent done")
	r.ForEach("random", r.Pick(60000, 5000000), 8, func(i int, rng *rand.Rand) {
		a := attrs[rng.Intn(len(attrs))]
		if a.name == "pass_env_values" && rng.Intn(20) != 0 {
			a = attrs[rng.Intn(len(attrs)-1)] // the environment is process-wide; keep its share small
		}
		x, y := rng.Intn(len(a.vals)), rng.Intn(len(a.vals))
		if x == y {
			return
		}
		ctx := randContext(rng)
		sa, sb := cloneSpec(ctx), cloneSpec(ctx)
		a.vals[x].set(&sa)
		a.vals[y].set(&sb)
		if sa.String() == sb.String() {
			return
		}
		if sa.EntryPoints != nil && (sa.NamedOuts != nil || sb.NamedOuts != nil) {
			// an entry point may not share its name with a named output (AddEntryPoint panics by design)
			sa.EntryPoints, sb.EntryPoints = nil, nil
		}
		r.Case(sa.String()+"|"+sb.String(), true)
		if r.WantSample() && i%1000 == 0 {
			r.Sample(map[string]any{"attribute": a.name, "a": sa, "b": sb})
		}
		r.Obs("random_pairs_compared", 1)
		if h := m.hash(sa); h == m.hash(sb) {
			m.mu.Lock()
			un := m.unhashed[a.id()]
			m.mu.Unlock()
			if un {
				m.record(a.name+"/not-hashed", sa, sb, h, i, "random")
			} else {
				m.record(a.name+"/"+mode(a.kind, a.vals[x], a.vals[y]), sa, sb, h, i, "random")
			}
		}
	})
	dbg("random done")
	r.RequireObserved("rule_hashes_computed", "pool_pairs_compared", "random_pairs_compared")
	if got := len(m.kinds); got < 5 {
		r.Inconclusive(fmt.Sprintf("only %d of the 5 kinds of build input (file, label, annotated label, system file, PATH tool) were exercised", got))
	}
	m.report()
}

// inputsOf lists the build inputs of a definition as the target holds them.
func inputsOf(s spec) []core.BuildInput {
	t := newTarget(s)
	out := append(append([]core.BuildInput{}, t.Sources...), t.Tools...)
	for _, l := range t.NamedSources {
		out = append(out, l...)
	}
	for _, l := range t.AllNamedTools() {
		out = append(out, l...)
	}
	return out
}

func cloneSpec(s spec) spec {
	var c spec
	b, _ := json.Marshal(s)
	json.Unmarshal(b, &c)
	return c
}

func (m *mon) report() {
	keys := sortedKeys(m.best)
	var all []string
	for _, k := range keys {
		f := m.best[k]
		all = append(all, fmt.Sprintf("%s  A=%s  B=%s", k, f.a, f.b))
		dbg(fmt.Sprintf("key %-45s n=%-6d A=%s  B=%s", k, f.count, f.a, f.b))
		m.r.Violation(k, fmt.Sprintf("equal rule hash %s for two different definitions [%s; %d colliding pair(s) of this kind]: A = %s   B = %s", f.hash, k, f.count, f.a, f.b),
			map[string]any{"a": f.a, "b": f.b, "hash": f.hash, "kind": k, "found_by": f.src, "pairs_of_this_kind": f.count}, f.idx)
	}
	if len(all) > 0 {
		m.r.Extra("all_violation_keys_with_minimal_witness", all)
	}
	if len(keys) > 20 && !m.r.Replaying() {
		// lib prints and writes replay files for the first 20 keys only; keep a replay file for every key.
		dir := os.Getenv("VERIF_REPLAY_DIR")
		if dir == "" {
			dir = filepath.Join(lib.Root(), "replays")
		}
		os.MkdirAll(filepath.Join(dir, "C08"), 0o755)
		for _, k := range keys {
			f := m.best[k]
			name := regexp.MustCompile(`[^A-Za-z0-9._:+-]`).ReplaceAllString("C08:"+lib.SanitizeKey(k), "_")
			b, _ := json.MarshalIndent(map[string]any{"property": "C08", "seed": m.r.Seed, "tier": m.r.Tier, "case_index": f.idx, "stream": "",
				"key": "C08:" + lib.SanitizeKey(k), "witness": map[string]any{"a": f.a, "b": f.b, "hash": f.hash, "kind": k}}, "", " ")
			os.WriteFile(filepath.Join(dir, "C08", name+".json"), b, 0o644)
		}
	}
}

func (m *mon) replay(t *testing.T) {
	b, err := os.ReadFile(os.Getenv("VERIF_REPLAY"))
	if err != nil {
		t.Fatal(err)
	}
	var rp struct {
		Case    int `json:"case_index"`
		Witness struct {
			A    *spec  `json:"a"`
			B    *spec  `json:"b"`
			Kind string `json:"kind"`
		} `json:"witness"`
	}
	if err := json.Unmarshal(b, &rp); err != nil || rp.Witness.A == nil || rp.Witness.B == nil {
		t.Fatalf("replay file has no pair of definitions: %v", err)
	}
	ha, hb := m.hash(*rp.Witness.A), m.hash(*rp.Witness.B)
	fmt.Printf("REPLAY: A = %s (%s)  B = %s (%s)  collide = %v\n", rp.Witness.A, ha, rp.Witness.B, hb, ha == hb)
	if ha == hb && rp.Witness.A.String() != rp.Witness.B.String() {
		m.record(rp.Witness.Kind, *rp.Witness.A, *rp.Witness.B, ha, rp.Case, "replay")
	}
}

package c16

// Sentinel programs: hand-written minimal forms of the disagreements suspected in DESIGN §5 and of the
// classes the random stream finds most often. They run through the same engine (oracle, shrinker,
// key) on every seed, so a known defect always reports under the same key and a repaired one goes
// silent; everything else comes from the seeded generator.

func b(op string, l, r *Node) *Node      { return &Node{K: "bin", S: op, C: []*Node{l, r}} }          // flat
func bp(op string, l, r *Node) *Node     { return &Node{K: "bin", S: op, C: []*Node{l, r}, Paren: true} }
func nm(s string) *Node                  { return &Node{K: "name", S: s} }
func asg(n string, e *Node) *Node        { return &Node{K: "assign", S: n, C: []*Node{e}} }
func lst(v ...int64) *Node {
	l := &Node{K: "list"}
	for _, x := range v {
		l.C = append(l.C, iLit(x))
	}
	return l
}
func cl(fn string, a ...*Node) *Node { return &Node{K: "call", S: fn, C: a} }

func sentinels() []*Prog {
	lam := func(body *Node) *Node { return &Node{K: "lambda", Names: []string{"x"}, C: []*Node{body}} }
	long := lst(3, 1, 2, 0, 5, 4, 1, 3, 2, 0, 5, 4, 1, 3, 2, 0, 5, 4, 2, 1)
	ps := []*Prog{
		{Stmts: []*Node{asg("a", bp("%", iLit(-7), iLit(3)))}, Export: []string{"a"}},
		{Stmts: []*Node{asg("a", bp("%", iLit(7), iLit(-3)))}, Export: []string{"a"}},
		{Stmts: []*Node{asg("a", lst(3, 1, 2)), asg("b", cl("sorted", nm("a")))}, Export: []string{"a", "b"}},
		{Stmts: []*Node{asg("a", lst(3, 1, 2)), asg("b", cl("reversed", nm("a")))}, Export: []string{"a", "b"}},
		{Stmts: []*Node{asg("a", cl("range", iLit(5), iLit(0), iLit(-1)))}, Export: []string{"a"}},
		{Stmts: []*Node{asg("a", b("-", b("-", iLit(10), b("*", iLit(2), iLit(3))), iLit(1)))}, Export: []string{"a"}},
		{Stmts: []*Node{asg("a", b("and", b("<", iLit(1), b("+", iLit(2), iLit(3))), iLit(0)))}, Export: []string{"a"}},
		{Stmts: []*Node{asg("a", b("and", &Node{K: "un", S: "not", C: []*Node{b("==", iLit(1), iLit(2))}}, iLit(0)))}, Export: []string{"a"}},
		{Stmts: []*Node{asg("y", iLit(3)), asg("a", b("+", b("*", iLit(2), &Node{K: "un", S: "-", C: []*Node{nm("y")}}), iLit(4)))}, Export: []string{"a"}},
		{Stmts: []*Node{{K: "def", S: "f", Body: []*Node{{K: "ret", C: []*Node{lst(1, 2, 3)}}}}, asg("a", cl("f")),
			{K: "iset", S: "a", C: []*Node{iLit(0), iLit(9)}}, asg("c", cl("f"))}, Export: []string{"a", "c"}},
		{Stmts: []*Node{asg("a", lst(1, 2, 3)), asg("c", &Node{K: "slice", C: []*Node{nm("a"), iLit(0), iLit(2)}}),
			{K: "iset", S: "c", C: []*Node{iLit(0), iLit(9)}}}, Export: []string{"a", "c"}},
		{Stmts: []*Node{asg("a", &Node{K: "lcomp", Names: []string{"x"}, C: []*Node{nm("x"), lst(1, 2, 3), bp("<", nm("x"), iLit(2))}}),
			asg("c", bp("+", nm("a"), lst(5))), asg("d", bp("+", nm("a"), lst(6)))}, Export: []string{"a", "c", "d"}},
		{Stmts: []*Node{asg("a", lst(1)), asg("c", nm("a")), {K: "aug", S: "c", C: []*Node{lst(2)}}}, Export: []string{"a", "c"}},
		{Stmts: []*Node{asg("a", cl("filter", lam(bp(">", nm("x"), iLit(5))), lst(1, 2)))}, Export: []string{"a"}},
		{Stmts: []*Node{asg("a", &Node{K: "slice", C: []*Node{sLit("héllo"), iLit(1), iLit(3)}})}, Export: []string{"a"}},
		{Stmts: []*Node{asg("a", meth("find", TInt, sLit("héllo"), sLit("l")))}, Export: []string{"a"}},
		{Stmts: []*Node{asg("a", bp("//", iLit((1<<53)+1), iLit(1)))}, Export: []string{"a"}},
		{Stmts: []*Node{asg("a", &Node{K: "int", I: 15, Oct: true})}, Export: []string{"a"}},
		{Stmts: []*Node{asg("a", &Node{K: "chaincmp", C: []*Node{iLit(1), iLit(1), iLit(1)}, Kw: []string{"==", "=="}})}, Export: []string{"a"}},
		{Stmts: []*Node{asg("a", &Node{K: "cond", C: []*Node{iLit(1), cl("range", iLit(0)), iLit(2)}, Paren: true})}, Export: []string{"a"}},
		{Stmts: []*Node{asg("a", &Node{K: "call", S: "sorted", C: []*Node{long, lam(bp("%", nm("x"), iLit(2)))}, Kw: []string{"", "key"}})}, Export: []string{"a"}},
		{Stmts: []*Node{asg("a", bp("==", cl("range", iLit(3)), lst(0, 1, 2)))}, Export: []string{"a"}},
		{Stmts: []*Node{asg("a", &Node{K: "meth", S: "upper", C: []*Node{{K: "strcat", C: []*Node{sLit("a"), sLit("b")}}}})}, Export: []string{"a"}},
		{Stmts: []*Node{{K: "def", S: "f", Names: []string{"p0", "p1"}, C: []*Node{nil, lst()}, Body: []*Node{{K: "aug", S: "p1", C: []*Node{{K: "list", C: []*Node{nm("p0")}}}}, {K: "ret", C: []*Node{nm("p1")}}}},
			asg("a", cl("f", iLit(1))), asg("c", cl("f", iLit(2)))}, Export: []string{"a", "c"}},
	}
	return ps
}

package c16

import (
	"fmt"
	"sort"
	"strings"
	"unicode/utf8"
)

// Witness keys: the shrunk program with identifiers alpha-renamed and literals abstracted to a
// class (int: P small non-negative / N negative / BIG / 0oP octal; str: E empty / S ascii / U
// non-ascii, format strings keep their directives; list and dict literals keep the set of element
// classes). Disagreements that need the languages' own operator precedence (they vanish when every
// operator is parenthesised) are keyed by the shape of the flat operator chain instead.

func intClass(n *Node) string {
	switch {
	case n.Oct:
		return "0oP"
	case n.I >= 1<<31 || n.I <= -(1<<31):
		return "BIG"
	case n.I >= 0:
		return "P"
	}
	return "N"
}

func strClass(s string) string {
	c := "S"
	if s == "" {
		c = "E"
	} else if len(s) != utf8.RuneCountInString(s) {
		c = "U"
	}
	// keep formatting directives: they select the code path
	var dirs []string
	for i := 0; i < len(s); i++ {
		if s[i] == '%' && i+1 < len(s) {
			dirs = append(dirs, s[i:i+2])
			i++
		} else if s[i] == '{' {
			if j := strings.IndexByte(s[i:], '}'); j == 1 {
				dirs = append(dirs, "{}")
			} else if j > 1 {
				dirs = append(dirs, "{n}")
			}
		}
	}
	if len(dirs) > 0 {
		return c + "<" + strings.Join(dirs, "") + ">"
	}
	if strings.ContainsAny(s, "\n\t") {
		c += "ws"
	}
	return c
}

type skel struct {
	names map[string]string
	nv    int
}

func (k *skel) rename(n string) string {
	if pyBuiltin[n] && len(n) > 1 {
		return n
	}
	if r, ok := k.names[n]; ok {
		return r
	}
	r := string(rune('a' + k.nv%26))
	if k.nv >= 26 {
		r += fmt.Sprint(k.nv / 26)
	}
	k.nv++
	k.names[n] = r
	return r
}

func uniqJoin(l []string) string {
	sort.Strings(l)
	var out []string
	for i, x := range l {
		if i == 0 || x != l[i-1] {
			out = append(out, x)
		}
	}
	return strings.Join(out, ",")
}

// abstract rewrites a clone of the program into its skeleton form (names and literals replaced by
// "name" nodes carrying the class text, which the ordinary renderer then prints verbatim).
func (k *skel) expr(n *Node) *Node {
	if n == nil {
		return nil
	}
	switch n.K {
	case "int":
		return &Node{K: "name", S: intClass(n)}
	case "str":
		return &Node{K: "name", S: strClass(n.S)}
	case "name":
		return &Node{K: "name", S: k.rename(n.S)}
	case "list", "tuple":
		var cl []string
		r := &renderer{l: asp}
		for _, c := range n.C {
			cl = append(cl, r.expr(k.expr(c), 1))
		}
		open, close := "[", "]"
		if n.K == "tuple" {
			open, close = "(", ")"
		}
		return &Node{K: "name", S: open + uniqJoin(cl) + close}
	case "dict":
		var cl []string
		r := &renderer{l: asp}
		for i := 0; i+1 < len(n.C); i += 2 {
			cl = append(cl, r.expr(k.expr(n.C[i]), 1)+":"+r.expr(k.expr(n.C[i+1]), 1))
		}
		return &Node{K: "name", S: "{" + uniqJoin(cl) + "}"}
	case "fstr":
		m := n.clone()
		for i := range m.Parts {
			if i%2 == 1 {
				m.Parts[i] = k.rename(m.Parts[i])
			} else if m.Parts[i] != "" {
				m.Parts[i] = strClass(m.Parts[i])
			}
		}
		return m
	}
	m := *n
	m.C = make([]*Node, len(n.C))
	if n.K == "call" {
		m.S = k.rename(n.S)
	}
	if len(n.Names) > 0 && (n.K == "lcomp" || n.K == "lcomp2" || n.K == "dcomp" || n.K == "lambda") {
		m.Names = make([]string, len(n.Names))
		for i, x := range n.Names {
			m.Names[i] = k.rename(x)
		}
	}
	for i, c := range n.C {
		m.C[i] = k.expr(c)
	}
	return &m
}

func (k *skel) stmts(l []*Node) []*Node {
	out := make([]*Node, len(l))
	for i, s := range l {
		m := *s
		switch s.K {
		case "assign", "aug", "iset", "iaug", "def":
			m.S = k.rename(s.S)
		}
		if len(s.Names) > 0 {
			m.Names = make([]string, len(s.Names))
			for j, x := range s.Names {
				m.Names[j] = k.rename(x)
			}
		}
		m.C = make([]*Node, len(s.C))
		for j, c := range s.C {
			m.C[j] = k.expr(c)
			if m.C[j] != nil && (s.K == "assign" || s.K == "aug" || s.K == "expr") {
				m.C[j].Paren = false // outermost parentheses carry no information
			}
		}
		m.Body = k.stmts(s.Body)
		m.Else = k.stmts(s.Else)
		out[i] = &m
	}
	return out
}

var opClassName = map[string]string{"+": "add", "-": "add", "*": "mul", "//": "mul", "%": "mul", "<": "cmp", "<=": "cmp", ">": "cmp", ">=": "cmp",
	"==": "cmp", "!=": "cmp", "in": "cmp", "not in": "cmp", "is": "cmp", "is not": "cmp", "and": "and", "or": "or", "|": "union"}

type flatOp struct {
	class string
	prec  int
}

// flatOps lists, left to right, the operators of the unparenthesised chain rooted at n.
func flatOps(n *Node, top bool) []flatOp {
	if n == nil {
		return nil
	}
	inline := func(c *Node, min int) []flatOp {
		if (c.K == "bin" || c.K == "un") && !c.Paren && pyPrec(c) >= min {
			return flatOps(c, false)
		}
		return nil
	}
	switch n.K {
	case "bin":
		p := pyPrec(n)
		lp, rp := p, p+1
		if p == 5 {
			lp = p + 1
		}
		out := inline(n.C[0], lp)
		out = append(out, flatOp{opClassName[n.S], p})
		return append(out, inline(n.C[1], rp)...)
	case "un":
		cl, min := "neg", 11
		if n.S == "not" {
			cl, min = "not", 4
		}
		return append([]flatOp{{cl, pyPrec(n)}}, inline(n.C[0], min)...)
	}
	return nil
}

// longestChain finds the longest unparenthesised operator chain in the program.
func longestChain(p *Prog) []flatOp {
	var best []flatOp
	for _, slot := range exprSlots(p) {
		n := *slot
		if n.K == "bin" || n.K == "un" {
			if ops := flatOps(n, true); len(ops) > len(best) {
				best = ops
			}
		}
	}
	return best
}

func chainShape(ops []flatOp) string {
	if len(ops) == 2 {
		rel := "="
		if ops[0].prec < ops[1].prec {
			rel = "<"
		} else if ops[0].prec > ops[1].prec {
			rel = ">"
		}
		return ops[0].class + rel + ops[1].class
	}
	var sh []string
	for i := 1; i < len(ops); i++ {
		r := "same"
		if ops[i-1].prec < ops[i].prec {
			r = "rise"
		} else if ops[i-1].prec > ops[i].prec {
			r = "fall"
		}
		if len(sh) == 0 || sh[len(sh)-1] != r {
			sh = append(sh, r)
		}
	}
	return strings.Join(sh, "-")
}

func chainClasses(ops []flatOp) string {
	var cl []string
	for _, o := range ops {
		cl = append(cl, o.class)
	}
	return strings.Join(cl, " ")
}

// Skeleton renders the abstracted program on one line.
func Skeleton(p *Prog) string {
	k := &skel{names: map[string]string{}}
	q := &Prog{Stmts: k.stmts(p.Stmts)}
	r := &renderer{l: asp}
	r.stmts(q.Stmts, 0)
	lines := strings.Split(strings.TrimRight(r.sb.String(), "\n"), "\n")
	for i, l := range lines {
		ind := len(l) - len(strings.TrimLeft(l, " "))
		lines[i] = strings.Repeat(">", ind/4) + strings.TrimLeft(l, " ")
	}
	s := strings.Join(lines, ";")
	s = strings.ReplaceAll(s, ", ", ",")
	s = strings.ReplaceAll(s, " = ", "=")
	return s
}

// KeyOf computes the witness key of a shrunk program. precedenceOnly says that the disagreement
// disappears when every operator is parenthesised.
func KeyOf(p *Prog, target string, precedenceOnly bool) string {
	if precedenceOnly {
		if ops := longestChain(p); len(ops) >= 2 {
			return "prec/" + chainShape(ops)
		}
	}
	k := &skel{names: map[string]string{}}
	_ = k
	sk := Skeleton(p)
	// which variable is observed matters (alias vs. result): name it in skeleton terms
	k2 := &skel{names: map[string]string{}}
	k2.stmts(p.Stmts)
	obs := k2.names[target]
	return sk + "|" + obs
}

package c16

import (
	"fmt"
	"math/rand"
)

// ---- literal pools -------------------------------------------------------------------------------

var smallInts = []int64{0, 1, -1, 2, 3, -2, 5, 7, -7, 4, 10, -3, 6, 12, 9}
var bigInts = []int64{1 << 31, (1 << 53) + 1, 100000000000000003, -(1 << 40), 99, 100, 255, 999999999999999999, -1000000007, 123456789012345678}
var strPool = []string{"", "a", "ab", "abc", "a b", "a,b,c", "  x ", "hello world", "é", "héllo", "日本", "a☃b", "x-y-z", "Abc", "aXbXc", "tab\tx", "l1\nl2", "q\"q", "it's", "b\\s", "aaa", "ba", "b", "c", "xyzxyz", " ", "ünï", "😀k", "ab,", ",", "0", "12", "-5"}
var keyPool = []string{"a", "b", "c", "k1", "é", "zz", "B"}

type fnSig struct {
	name   string
	params []Ty
	ndef   int // trailing params with defaults
	ret    Ty
}

type gen struct {
	rng    *rand.Rand
	vars   map[Ty][]string // visible, definitely assigned variables by type
	funcs  []fnSig
	nname  int
	flat   bool // generate binary operators without explicit parentheses (Python precedence decides)
	inLoop bool
	inFunc bool
	feat   map[string]bool
}

func (g *gen) n(k int) int          { return g.rng.Intn(k) }
func (g *gen) p(prob float64) bool  { return g.rng.Float64() < prob }
func (g *gen) mark(f string)        { g.feat[f] = true }
func (g *gen) fresh(pfx string) string {
	g.nname++
	return fmt.Sprintf("%s%d", pfx, g.nname)
}
func pickS(g *gen, l []string) string { return l[g.n(len(l))] }

func iLit(v int64) *Node   { return &Node{K: "int", I: v, T: TInt} }
func sLit(s string) *Node  { return &Node{K: "str", S: s, T: TStr} }
func name(s string, t Ty) *Node { return &Node{K: "name", S: s, T: t} }
func (g *gen) bin(op string, l, r *Node, t Ty) *Node {
	g.mark("op:" + op)
	return &Node{K: "bin", S: op, C: []*Node{l, r}, T: t, Paren: !g.flat}
}
func call(fn string, t Ty, args ...*Node) *Node { return &Node{K: "call", S: fn, C: args, T: t} }
func meth(m string, t Ty, recv *Node, args ...*Node) *Node {
	return &Node{K: "meth", S: m, C: append([]*Node{recv}, args...), T: t}
}

func (g *gen) intLit() *Node {
	switch x := g.n(400); {
	case x < 320:
		return iLit(smallInts[g.n(len(smallInts))])
	case x < 399:
		return iLit(bigInts[g.n(len(bigInts))])
	default:
		g.mark("octal")
		return &Node{K: "int", I: int64(8 + g.n(500)), Oct: true, T: TInt}
	}
}

func (g *gen) smallInt() *Node { return iLit(int64(g.n(5))) }

func (g *gen) strLit() *Node { return sLit(pickS(g, strPool)) }

func (g *gen) varOf(t Ty) *Node {
	if vs := g.vars[t]; len(vs) > 0 && g.p(0.9) {
		return name(vs[g.n(len(vs))], t)
	}
	return nil
}

// expr generates an expression of static type t with nesting budget d.
func (g *gen) expr(t Ty, d int) *Node {
	switch t {
	case TInt:
		return g.intExpr(d)
	case TStr:
		return g.strExpr(d)
	case TBool:
		return g.boolExpr(d)
	case TLI:
		return g.liExpr(d)
	case TLS:
		return g.lsExpr(d)
	case TLLI:
		return g.lliExpr(d)
	case TDI:
		return g.dictExpr(d)
	case TNone:
		return &Node{K: "none", T: TNone}
	}
	return g.anyExpr(d)
}

// anyExpr: value of no particular type (exported, or used for its truthiness).
func (g *gen) anyExpr(d int) *Node {
	switch g.n(10) {
	case 0: // and/or over mixed types keep the operand's value
		op := "and"
		if g.p(0.5) {
			op = "or"
		}
		return g.bin(op, g.expr(Ty(g.n(7)), d-1), g.expr(Ty(g.n(7)), d-1), TAny)
	case 1:
		return &Node{K: "none", T: TNone}
	case 2:
		return &Node{K: "cond", C: []*Node{g.expr(Ty(g.n(7)), d-1), g.anyExpr(d - 1), g.expr(Ty(g.n(7)), d-1)}, T: TAny, Paren: true}
	case 3:
		g.mark("tuple")
		return &Node{K: "tuple", C: []*Node{g.expr(Ty(g.n(3)), d-1), g.expr(Ty(g.n(3)), d-1)}, T: TAny}
	case 4:
		g.mark("enumerate")
		return call("enumerate", TAny, g.expr(TLI+Ty(g.n(2)), d-1))
	case 5:
		g.mark("zip")
		n := 1 + g.n(3)
		return call("zip", TAny, g.sameLenLists(n, false)...)
	case 6:
		g.mark("dict.items")
		return meth("items", TAny, g.dictExpr(d-1))
	case 7:
		g.mark("range-value")
		return g.rangeCall()
	case 8:
		return g.flatChain()
	}
	return g.expr(Ty(g.n(7)), d)
}

func (g *gen) sameLenLists(n int, intsOnly bool) []*Node {
	l := g.n(4)
	out := make([]*Node, n)
	for i := range out {
		lst := &Node{K: "list", T: TLI}
		for j := 0; j < l; j++ {
			if i%2 == 0 || intsOnly {
				lst.C = append(lst.C, g.intLit())
			} else {
				lst.C = append(lst.C, g.strLit())
			}
		}
		out[i] = lst
	}
	if g.p(0.04) { // unequal lengths: asp documents nothing; it errors, CPython truncates -> vacuous
		out[0] = g.liExpr(1)
	}
	return out
}

func (g *gen) rangeCall() *Node {
	g.mark("range")
	switch g.n(6) {
	case 0, 1:
		return call("range", TLI, iLit(int64(g.n(6))))
	case 2:
		return call("range", TLI, iLit(int64(g.n(4)-1)), iLit(int64(g.n(8))))
	case 3:
		return call("range", TLI, iLit(int64(g.n(4))), iLit(int64(g.n(12))), iLit(int64(1+g.n(3))))
	case 4: // negative step, counting down
		g.mark("range-negstep")
		lo := int64(g.n(4) - 1)
		return call("range", TLI, iLit(lo+int64(1+g.n(6))), iLit(lo), iLit(-int64(1+g.n(2))))
	}
	if v := g.varOf(TLI); v != nil {
		return call("range", TLI, call("len", TInt, v))
	}
	return call("range", TLI, iLit(3))
}

var arith = []string{"+", "-", "*", "//", "%", "+", "-", "*"}
var cmps = []string{"<", "<=", ">", ">=", "==", "!="}

func (g *gen) intExpr(d int) *Node {
	if d <= 0 || g.p(0.15) {
		if v := g.varOf(TInt); v != nil && g.p(0.5) {
			return v
		}
		return g.intLit()
	}
	switch g.n(24) {
	case 0, 1, 2, 3, 4, 5:
		op := arith[g.n(len(arith))]
		l, r := g.intExpr(d-1), g.intExpr(d-1)
		if (op == "//" || op == "%") && g.p(0.7) {
			r = iLit([]int64{2, 3, -3, 5, 7, -2, 1, 10}[g.n(8)])
		}
		return g.bin(op, l, r, TInt)
	case 6:
		g.mark("op:neg")
		x := g.intExpr(d - 1)
		if x.K == "int" {
			x = g.nameOr(TInt, x)
		}
		return &Node{K: "un", S: "-", C: []*Node{x}, T: TInt, Paren: !g.flat}
	case 7:
		g.mark("len")
		return call("len", TInt, g.expr([]Ty{TStr, TLI, TLS, TDI, TLLI}[g.n(5)], d-1))
	case 8:
		g.mark("index-list")
		return &Node{K: "idx", C: []*Node{g.liExpr(d - 1), g.indexLit()}, T: TInt}
	case 9:
		g.mark("dict-index")
		dd := g.dictExpr(d - 1)
		if dd.K == "dict" && len(dd.C) > 0 && g.p(0.7) {
			return &Node{K: "idx", C: []*Node{dd, sLit(dd.C[2*g.n(len(dd.C)/2)].S)}, T: TInt}
		}
		if g.p(0.8) {
			return meth("get", TInt, dd, sLit(pickS(g, keyPool)), g.intLit())
		}
		return &Node{K: "idx", C: []*Node{dd, sLit(pickS(g, keyPool))}, T: TInt}
	case 10:
		m := []string{"find", "rfind", "count"}[g.n(3)]
		g.mark("str." + m)
		return meth(m, TInt, g.strExpr(d-1), g.needle())
	case 11:
		g.mark("ord")
		return call("ord", TInt, sLit([]string{"a", "Z", "é", "日", "☃", " ", "0", "😀"}[g.n(8)]))
	case 12:
		g.mark("int()")
		return call("int", TInt, sLit([]string{"12", "-5", "0", "007", "+3", "123456789"}[g.n(6)]))
	case 13:
		f := []string{"min", "max"}[g.n(2)]
		g.mark(f)
		a := []*Node{g.nonEmptyLI(d - 1)}
		kw := []string{""}
		if g.p(0.3) {
			g.mark(f + "-key")
			a = append(a, g.keyLambda(TInt))
			kw = append(kw, "key")
		}
		return &Node{K: "call", S: f, C: a, Kw: kw, T: TInt}
	case 14:
		return &Node{K: "cond", C: []*Node{g.intExpr(d - 1), g.condExpr(d - 1), g.intExpr(d - 1)}, T: TInt, Paren: true}
	case 15:
		op := []string{"and", "or"}[g.n(2)]
		return g.bin(op, g.intExpr(d-1), g.intExpr(d-1), TInt)
	case 16:
		g.mark("reduce")
		lam := &Node{K: "lambda", Names: []string{"x", "y"}, C: []*Node{g.withVars(map[Ty][]string{TInt: {"x", "y"}}, func() *Node {
			return g.bin(arith[g.n(3)], name("x", TInt), name("y", TInt), TInt)
		})}}
		if g.p(0.5) {
			return call("reduce", TInt, lam, g.nonEmptyLI(d-1))
		}
		return call("reduce", TInt, lam, g.liExpr(d-1), g.intLit())
	case 17:
		if c := g.userCall(TInt, d); c != nil {
			return c
		}
	case 18:
		g.mark("index-sorted")
		return &Node{K: "idx", C: []*Node{call("sorted", TLI, g.nonEmptyLI(d-1)), iLit(int64(g.n(2) - 1))}, T: TInt}
	case 20, 21:
		g.mark("flat-chain")
		return g.chainArith(4)
	case 19:
		g.mark("sum-loop")
		return &Node{K: "idx", C: []*Node{&Node{K: "idx", C: []*Node{g.lliExpr(d - 1), g.indexLit()}, T: TLI}, g.indexLit()}, T: TInt}
	}
	return g.bin(arith[g.n(len(arith))], g.intExpr(d-1), g.intExpr(d-1), TInt)
}

func (g *gen) nameOr(t Ty, fallback *Node) *Node {
	if v := g.varOf(t); v != nil {
		return v
	}
	fallback.Paren = true
	return &Node{K: "bin", S: "+", C: []*Node{fallback, iLit(0)}, T: TInt, Paren: true}
}

func (g *gen) indexLit() *Node {
	return iLit([]int64{0, 0, 0, -1, -1, 1, 1, -2, 2, 3}[g.n(10)])
}

func (g *gen) needle() *Node {
	return sLit([]string{"a", "b", "ab", "x", ",", " ", "é", "", "l", "本", "bc", "X", "-"}[g.n(13)])
}

func (g *gen) nonEmptyLI(d int) *Node {
	if v := g.varOf(TLI); v != nil && g.p(0.5) {
		return v
	}
	l := &Node{K: "list", T: TLI}
	for i, n := 0, 1+g.n(5); i < n; i++ {
		l.C = append(l.C, g.intExpr(d-1))
	}
	return l
}

// keyLambda returns a one-argument lambda mapping elements of type t to an int or str key.
func (g *gen) keyLambda(t Ty) *Node {
	var body *Node
	x := name("x", t)
	switch t {
	case TInt:
		switch g.n(4) {
		case 0:
			body = &Node{K: "un", S: "-", C: []*Node{x}, T: TInt, Paren: true}
		case 1:
			body = &Node{K: "bin", S: "%", C: []*Node{x, iLit(3)}, T: TInt, Paren: true}
		case 2:
			body = &Node{K: "bin", S: "*", C: []*Node{x, x}, T: TInt, Paren: true}
		default:
			body = &Node{K: "bin", S: "//", C: []*Node{x, iLit(2)}, T: TInt, Paren: true}
		}
	case TStr:
		switch g.n(3) {
		case 0:
			body = call("len", TInt, x)
		case 1:
			body = meth("lower", TStr, x)
		default:
			body = &Node{K: "slice", C: []*Node{x, nil, iLit(1)}, T: TStr}
		}
	default:
		body = call("len", TInt, x)
	}
	return &Node{K: "lambda", Names: []string{"x"}, C: []*Node{body}}
}

// withVars runs f with extra variables visible (comprehension / lambda / loop scopes).
func (g *gen) withVars(extra map[Ty][]string, f func() *Node) *Node {
	saved := map[Ty][]string{}
	for t, vs := range extra {
		saved[t] = g.vars[t]
		g.vars[t] = append(append([]string(nil), g.vars[t]...), vs...)
	}
	n := f()
	for t, vs := range saved {
		g.vars[t] = vs
	}
	return n
}

// condExpr is an expression used for its truthiness.
func (g *gen) condExpr(d int) *Node {
	if g.p(0.7) {
		return g.boolExpr(d)
	}
	g.mark("truthiness-nonbool")
	return g.anyExpr(d)
}

func (g *gen) boolExpr(d int) *Node {
	if d <= 0 {
		if v := g.varOf(TBool); v != nil && g.p(0.5) {
			return v
		}
		if g.p(0.4) {
			return &Node{K: "bool", I: int64(g.n(2)), T: TBool}
		}
		return g.bin(cmps[g.n(6)], g.intExpr(0), g.intExpr(0), TBool)
	}
	switch g.n(20) {
	case 0, 1, 2, 3:
		return g.bin(cmps[g.n(6)], g.intExpr(d-1), g.intExpr(d-1), TBool)
	case 4, 5:
		return g.bin(cmps[g.n(6)], g.strExpr(d-1), g.strExpr(d-1), TBool)
	case 6:
		t := []Ty{TLI, TLS, TDI, TLLI}[g.n(4)]
		g.mark("eq-container")
		return g.bin([]string{"==", "!="}[g.n(2)], g.expr(t, d-1), g.expr(t, d-1), TBool)
	case 7:
		op := []string{"in", "not in"}[g.n(2)]
		switch g.n(4) {
		case 0:
			return g.bin(op, g.intExpr(d-1), g.liExpr(d-1), TBool)
		case 1:
			return g.bin(op, g.strExpr(d-1), g.lsExpr(d-1), TBool)
		case 2:
			return g.bin(op, g.needle(), g.strExpr(d-1), TBool)
		}
		return g.bin(op, sLit(pickS(g, keyPool)), g.dictExpr(d-1), TBool)
	case 8, 9:
		g.mark("op:not")
		return &Node{K: "un", S: "not", C: []*Node{g.condExpr(d - 1)}, T: TBool, Paren: !g.flat}
	case 10, 11, 12:
		return g.bin([]string{"and", "or"}[g.n(2)], g.boolExpr(d-1), g.boolExpr(d-1), TBool)
	case 13:
		m := []string{"startswith", "endswith"}[g.n(2)]
		g.mark("str." + m)
		return meth(m, TBool, g.strExpr(d-1), g.needle())
	case 14:
		f := []string{"any", "all"}[g.n(2)]
		g.mark(f)
		if g.p(0.5) {
			return call(f, TBool, g.liExpr(d-1))
		}
		return call(f, TBool, &Node{K: "lcomp", Names: []string{"x"}, C: []*Node{
			g.withVars(map[Ty][]string{TInt: {"x"}}, func() *Node { return g.boolExpr(1) }), g.liExpr(d - 1), nil}, T: TAny})
	case 15:
		g.mark("isinstance")
		ty := []string{"str", "int", "list", "dict", "bool"}[g.n(5)]
		return call("isinstance", TBool, g.expr(Ty(g.n(7)), d-1), name(ty, TAny))
	case 16:
		g.mark("bool()")
		return call("bool", TBool, g.anyExpr(d-1))
	case 17:
		g.mark("op:is")
		x := g.anyExpr(d - 1)
		x.Paren = true
		return g.bin([]string{"is", "is not"}[g.n(2)], x, &Node{K: "none", T: TNone}, TBool)
	case 18:
		if g.p(0.3) {
			g.mark("chained-comparison")
			return &Node{K: "chaincmp", C: []*Node{g.intExpr(d - 1), g.intExpr(d - 1), g.intExpr(d - 1)}, Kw: []string{cmps[g.n(6)], cmps[g.n(6)]}, T: TBool}
		}
		if c := g.userCall(TBool, d); c != nil {
			return c
		}
	}
	return g.bin(cmps[g.n(6)], g.intExpr(d-1), g.intExpr(d-1), TBool)
}

func (g *gen) scalarVarNames() []string {
	var out []string
	for _, t := range []Ty{TInt, TStr, TBool} {
		out = append(out, g.vars[t]...)
	}
	return out
}

func (g *gen) strExpr(d int) *Node {
	if d <= 0 || g.p(0.15) {
		if v := g.varOf(TStr); v != nil && g.p(0.5) {
			return v
		}
		return g.strLit()
	}
	switch g.n(26) {
	case 0, 1, 2:
		return g.bin("+", g.strExpr(d-1), g.strExpr(d-1), TStr)
	case 3:
		g.mark("str*int")
		if g.p(0.5) {
			return g.bin("*", g.strExpr(d-1), g.smallInt(), TStr)
		}
		return g.bin("*", g.smallInt(), g.strExpr(d-1), TStr)
	case 4:
		g.mark("index-str")
		return &Node{K: "idx", C: []*Node{g.strExpr(d - 1), g.indexLit()}, T: TStr}
	case 5, 6:
		g.mark("slice-str")
		return &Node{K: "slice", C: g.sliced(g.strExpr(d - 1)), T: TStr}
	case 7:
		g.mark("str.join")
		return meth("join", TStr, sLit([]string{",", "", " ", "-", "é"}[g.n(5)]), g.lsExpr(d-1))
	case 8:
		g.mark("str.replace")
		return meth("replace", TStr, g.strExpr(d-1), g.needle(), g.strLit())
	case 9:
		m := []string{"strip", "lstrip", "rstrip"}[g.n(3)]
		g.mark("str." + m)
		return meth(m, TStr, g.strExpr(d-1), sLit([]string{" ", "a", "ab", "x ", "é", ",", "\n "}[g.n(7)]))
	case 10:
		m := []string{"upper", "lower"}[g.n(2)]
		g.mark("str." + m)
		return meth(m, TStr, g.strExpr(d-1))
	case 11:
		m := []string{"ljust", "rjust"}[g.n(2)]
		g.mark("str." + m)
		if g.p(0.5) {
			return meth(m, TStr, g.strExpr(d-1), iLit(int64(g.n(9))))
		}
		return meth(m, TStr, g.strExpr(d-1), iLit(int64(g.n(9))), sLit([]string{"*", "é", "0", " "}[g.n(4)]))
	case 12:
		m := []string{"removeprefix", "removesuffix"}[g.n(2)]
		g.mark("str." + m)
		return meth(m, TStr, g.strExpr(d-1), g.needle())
	case 13:
		return g.formatCall(d)
	case 14:
		return g.percentFormat(d)
	case 15:
		if vs := g.scalarVarNames(); len(vs) > 0 {
			g.mark("fstring")
			parts := []string{pickS(g, []string{"", "v=", "<", "é "})}
			for i, n := 0, 1+g.n(2); i < n; i++ {
				parts = append(parts, vs[g.n(len(vs))], pickS(g, []string{"", "-", " ", "/x"}))
			}
			return &Node{K: "fstr", Parts: parts, T: TStr}
		}
	case 16:
		g.mark("str()")
		return call("str", TStr, g.expr([]Ty{TInt, TStr, TBool, TNone}[g.n(4)], d-1))
	case 17:
		g.mark("chr")
		return call("chr", TStr, iLit([]int64{65, 97, 233, 26085, 9731, 32, 128512, 48}[g.n(8)]))
	case 18:
		m := []string{"partition", "rpartition"}[g.n(2)]
		g.mark("str." + m)
		return &Node{K: "idx", C: []*Node{meth(m, TLS, g.strExpr(d-1), g.sep()), iLit(int64(g.n(3)))}, T: TStr}
	case 19:
		g.mark("index-liststr")
		return &Node{K: "idx", C: []*Node{g.lsExpr(d - 1), g.indexLit()}, T: TStr}
	case 20:
		return &Node{K: "cond", C: []*Node{g.strExpr(d - 1), g.condExpr(d - 1), g.strExpr(d - 1)}, T: TStr, Paren: true}
	case 21:
		return g.bin([]string{"and", "or"}[g.n(2)], g.strExpr(d-1), g.strExpr(d-1), TStr)
	case 22:
		g.mark("str-adjacent")
		return &Node{K: "strcat", C: []*Node{g.strLit(), g.strLit()}, T: TStr}
	case 23:
		if c := g.userCall(TStr, d); c != nil {
			return c
		}
	case 24:
		f := []string{"min", "max"}[g.n(2)]
		g.mark(f + "-str")
		return call(f, TStr, g.nonEmptyLS())
	}
	return g.bin("+", g.strExpr(d-1), g.strExpr(d-1), TStr)
}

func (g *gen) sep() *Node { return sLit([]string{",", " ", "-", "X", "b", "é", "ab"}[g.n(7)]) }

func (g *gen) sliceBound() *Node {
	if g.p(0.3) {
		return nil
	}
	return iLit([]int64{0, 1, 2, -1, -2, 3, 5, 100, -100, 4}[g.n(10)])
}

// sliceBounds returns a (lo, hi) pair that is mostly well ordered (asp rejects lo > hi).
func (g *gen) sliceBounds() (*Node, *Node) {
	if g.p(0.15) {
		return g.sliceBound(), g.sliceBound()
	}
	var lo, hi *Node
	if g.p(0.7) {
		lo = iLit([]int64{0, 1, 1, 2, -2, -3, -1}[g.n(7)])
	}
	if g.p(0.7) {
		hi = iLit([]int64{2, 3, 100, -1, 5, 4}[g.n(6)])
	}
	return lo, hi
}

func (g *gen) scalar(d int) *Node {
	return g.expr([]Ty{TInt, TStr, TInt, TStr, TBool, TNone}[g.n(6)], d)
}

func (g *gen) formatCall(d int) *Node {
	g.mark("str.format")
	if g.p(0.5) { // named
		n := 1 + g.n(3)
		fmtS := pickS(g, []string{"", "x", "é:"})
		c := []*Node{nil}
		kw := []string{}
		names := []string{"a", "b", "name", "x_1"}
		for i := 0; i < n; i++ {
			fmtS += "{" + names[i] + "}" + pickS(g, []string{"", "-", " ", "/"})
		}
		if g.p(0.2) {
			fmtS += "{" + names[0] + "}"
		}
		perm := g.rng.Perm(n)
		for _, i := range perm {
			c = append(c, g.scalar(d-1))
			kw = append(kw, names[i])
		}
		c[0] = sLit(fmtS)
		return &Node{K: "meth", S: "format", C: c, Kw: kw, T: TStr}
	}
	g.mark("str.format-positional")
	n := 1 + g.n(3)
	fmtS := pickS(g, []string{"", "x", "é:"})
	c := []*Node{nil}
	for i := 0; i < n; i++ {
		fmtS += "{}" + pickS(g, []string{"", "-", " ", "/"})
		c = append(c, g.scalar(d-1))
	}
	c[0] = sLit(fmtS)
	return &Node{K: "meth", S: "format", C: c, T: TStr}
}

func (g *gen) percentFormat(d int) *Node {
	g.mark("op:%-format")
	n := 1 + g.n(3)
	fmtS := pickS(g, []string{"", "x", "é:"})
	var args []*Node
	for i := 0; i < n; i++ {
		switch g.n(4) {
		case 0:
			fmtS += "%d"
			args = append(args, g.intExpr(d-1))
		case 1:
			fmtS += "%s"
			args = append(args, g.intExpr(d-1))
		default:
			fmtS += "%s"
			args = append(args, g.strExpr(d-1))
		}
		fmtS += pickS(g, []string{"", "-", " ", "%%"})
	}
	var rhs *Node
	if n == 1 {
		rhs = args[0]
		if rhs.K == "bin" || rhs.K == "un" || rhs.K == "cond" {
			rhs.Paren = true
		}
	} else {
		rhs = &Node{K: "tuple", C: args, T: TAny}
	}
	return &Node{K: "bin", S: "%", C: []*Node{sLit(fmtS), rhs}, T: TStr, Paren: true}
}

func (g *gen) nonEmptyLS() *Node {
	if v := g.varOf(TLS); v != nil && g.p(0.4) {
		return v
	}
	l := &Node{K: "list", T: TLS}
	for i, n := 0, 1+g.n(5); i < n; i++ {
		l.C = append(l.C, g.strLit())
	}
	return l
}

func (g *gen) liLit(d int) *Node {
	l := &Node{K: "list", T: TLI}
	n := 1 + g.n(5)
	if g.p(0.1) {
		n = 0
	}
	if g.p(0.08) {
		n = 13 + g.n(20) // long enough for Go's sort to leave insertion sort
	}
	for i := 0; i < n; i++ {
		if n > 8 {
			l.C = append(l.C, iLit(int64(g.n(9)-2)))
		} else {
			l.C = append(l.C, g.intExpr(d-1))
		}
	}
	return l
}

func (g *gen) liExpr(d int) *Node {
	if d <= 0 || g.p(0.15) {
		if v := g.varOf(TLI); v != nil && g.p(0.6) {
			return v
		}
		return g.liLit(1)
	}
	switch g.n(22) {
	case 0, 1:
		return g.liLit(d)
	case 2, 3:
		return g.bin("+", g.liExpr(d-1), g.liExpr(d-1), TLI)
	case 4:
		g.mark("list*int")
		if g.p(0.5) {
			return g.bin("*", g.liExpr(d-1), g.smallInt(), TLI)
		}
		return g.bin("*", g.smallInt(), g.liExpr(d-1), TLI)
	case 5, 6:
		g.mark("slice-list")
		return &Node{K: "slice", C: g.sliced(g.liExpr(d - 1)), T: TLI}
	case 7, 8:
		g.mark("listcomp")
		it := g.liExpr(d - 1)
		if g.p(0.4) {
			it = g.rangeCall()
		}
		return g.withVars(map[Ty][]string{TInt: {"x"}}, func() *Node {
			c := &Node{K: "lcomp", Names: []string{"x"}, C: []*Node{g.intExpr(d - 1), it, nil}, T: TLI}
			if g.p(0.5) {
				g.mark("listcomp-if")
				c.C[2] = g.boolExpr(1)
			}
			return c
		})
	case 9:
		g.mark("listcomp2")
		it1, it2 := g.liExpr(d-1), g.liExpr(d-1)
		return g.withVars(map[Ty][]string{TInt: {"x", "y"}}, func() *Node {
			c := &Node{K: "lcomp2", Names: []string{"x", "y"}, C: []*Node{g.intExpr(1), it1, it2, nil}, T: TLI}
			if g.p(0.4) {
				c.C[3] = g.boolExpr(1)
			}
			return c
		})
	case 10, 11:
		g.mark("sorted")
		c := &Node{K: "call", S: "sorted", C: []*Node{g.liExpr(d - 1)}, Kw: []string{""}, T: TLI}
		if g.p(0.35) {
			g.mark("sorted-key")
			c.C = append(c.C, g.keyLambda(TInt))
			c.Kw = append(c.Kw, "key")
		}
		if g.p(0.3) {
			g.mark("sorted-reverse")
			c.C = append(c.C, &Node{K: "bool", I: 1, T: TBool})
			c.Kw = append(c.Kw, "reverse")
		}
		return c
	case 12:
		g.mark("reversed")
		return call("reversed", TLI, g.liExpr(d-1))
	case 13:
		return g.rangeCall()
	case 14:
		g.mark("map")
		return call("map", TLI, g.keyLambda(TInt), g.liExpr(d-1))
	case 15:
		g.mark("filter")
		lam := &Node{K: "lambda", Names: []string{"x"}, C: []*Node{g.withVars(map[Ty][]string{TInt: {"x"}}, func() *Node {
			return g.bin(cmps[g.n(6)], name("x", TInt), iLit(int64(g.n(6)-1)), TBool)
		})}}
		return call("filter", TLI, lam, g.liExpr(d-1))
	case 16:
		g.mark("dict.values")
		return meth("values", TLI, g.dictExpr(d-1))
	case 17:
		g.mark("index-listlist")
		return &Node{K: "idx", C: []*Node{g.lliExpr(d - 1), g.indexLit()}, T: TLI}
	case 18:
		return &Node{K: "cond", C: []*Node{g.liExpr(d - 1), g.condExpr(d - 1), g.liExpr(d - 1)}, T: TLI, Paren: true}
	case 19:
		g.mark("range+list")
		return g.bin("+", g.rangeCall(), g.liExpr(d-1), TLI)
	case 20:
		if c := g.userCall(TLI, d); c != nil {
			return c
		}
	case 21:
		g.mark("or-default")
		return g.bin("or", g.liExpr(d-1), g.liExpr(d-1), TLI)
	}
	return g.liLit(d)
}

func (g *gen) lsExpr(d int) *Node {
	if d <= 0 || g.p(0.2) {
		if v := g.varOf(TLS); v != nil && g.p(0.6) {
			return v
		}
		l := &Node{K: "list", T: TLS}
		n := g.n(5)
		if g.p(0.06) {
			n = 13 + g.n(12)
		}
		for i := 0; i < n; i++ {
			l.C = append(l.C, g.strLit())
		}
		return l
	}
	switch g.n(12) {
	case 0:
		g.mark("str.split")
		return meth("split", TLS, g.strExpr(d-1), g.sep())
	case 1:
		g.mark("dict.keys")
		return meth("keys", TLS, g.dictExpr(d-1))
	case 2, 3:
		g.mark("sorted-str")
		c := &Node{K: "call", S: "sorted", C: []*Node{g.lsExpr(d - 1)}, Kw: []string{""}, T: TLS}
		if g.p(0.4) {
			g.mark("sorted-key")
			c.C = append(c.C, g.keyLambda(TStr))
			c.Kw = append(c.Kw, "key")
		}
		if g.p(0.3) {
			g.mark("sorted-reverse")
			c.C = append(c.C, &Node{K: "bool", I: 1, T: TBool})
			c.Kw = append(c.Kw, "reverse")
		}
		return c
	case 4:
		g.mark("listcomp-str")
		it := g.liExpr(d - 1)
		return g.withVars(map[Ty][]string{TInt: {"x"}}, func() *Node {
			return &Node{K: "lcomp", Names: []string{"x"}, C: []*Node{g.strExpr(d - 1), it, nil}, T: TLS}
		})
	case 5:
		it := g.lsExpr(d - 1)
		return g.withVars(map[Ty][]string{TStr: {"s"}}, func() *Node {
			c := &Node{K: "lcomp", Names: []string{"s"}, C: []*Node{g.strExpr(d - 1), it, nil}, T: TLS}
			if g.p(0.5) {
				c.C[2] = g.boolExpr(1)
			}
			return c
		})
	case 6:
		return g.bin("+", g.lsExpr(d-1), g.lsExpr(d-1), TLS)
	case 7:
		g.mark("slice-list")
		return &Node{K: "slice", C: g.sliced(g.lsExpr(d - 1)), T: TLS}
	case 8:
		g.mark("reversed")
		return call("reversed", TLS, g.lsExpr(d-1))
	case 9:
		m := []string{"partition", "rpartition"}[g.n(2)]
		g.mark("str." + m)
		return meth(m, TLS, g.strExpr(d-1), g.sep())
	case 10:
		g.mark("filter")
		lam := &Node{K: "lambda", Names: []string{"x"}, C: []*Node{name("x", TStr)}}
		return call("filter", TLS, lam, g.lsExpr(d-1))
	}
	return g.lsExpr(0)
}

func (g *gen) lliExpr(d int) *Node {
	if d <= 0 || g.p(0.3) {
		if v := g.varOf(TLLI); v != nil && g.p(0.6) {
			return v
		}
		l := &Node{K: "list", T: TLLI}
		for i, n := 0, g.n(4); i < n; i++ {
			l.C = append(l.C, g.liExpr(0))
		}
		return l
	}
	switch g.n(6) {
	case 0:
		g.mark("listcomp-nested")
		it := g.liExpr(d - 1)
		return g.withVars(map[Ty][]string{TInt: {"x"}}, func() *Node {
			return &Node{K: "lcomp", Names: []string{"x"}, C: []*Node{g.liExpr(d - 1), it, nil}, T: TLLI}
		})
	case 1:
		g.mark("sorted-lists")
		return call("sorted", TLLI, g.lliExpr(d-1))
	case 2:
		return g.bin("+", g.lliExpr(d-1), g.lliExpr(d-1), TLLI)
	case 3:
		g.mark("list*int")
		return g.bin("*", g.lliExpr(d-1), g.smallInt(), TLLI)
	case 4:
		g.mark("zip")
		return call("zip", TLLI, g.sameLenLists(2, true)...)
	}
	return g.lliExpr(0)
}

func (g *gen) dictExpr(d int) *Node {
	if d <= 0 || g.p(0.3) {
		if v := g.varOf(TDI); v != nil && g.p(0.6) {
			return v
		}
		l := &Node{K: "dict", T: TDI}
		for i, n := 0, g.n(4); i < n; i++ {
			l.C = append(l.C, sLit(pickS(g, keyPool)), g.intExpr(d-1))
		}
		return l
	}
	switch g.n(6) {
	case 0, 1:
		g.mark("op:|")
		return g.bin("|", g.dictExpr(d-1), g.dictExpr(d-1), TDI)
	case 2:
		g.mark("dict.copy")
		return meth("copy", TDI, g.dictExpr(d-1))
	case 3:
		g.mark("dictcomp")
		it := g.lsExpr(d - 1)
		return g.withVars(map[Ty][]string{TStr: {"s"}}, func() *Node {
			c := &Node{K: "dcomp", Names: []string{"s"}, C: []*Node{name("s", TStr), call("len", TInt, name("s", TStr)), it, nil}, T: TDI}
			if g.p(0.3) {
				c.C[3] = g.boolExpr(1)
			}
			return c
		})
	case 4:
		g.mark("dictcomp-items")
		it := meth("items", TAny, g.dictExpr(d-1))
		return g.withVars(map[Ty][]string{TStr: {"k"}, TInt: {"v"}}, func() *Node {
			return &Node{K: "dcomp", Names: []string{"k", "v"}, C: []*Node{g.strExpr(1), g.intExpr(1), it, nil}, T: TDI}
		})
	}
	return g.dictExpr(0)
}

func (g *gen) userCall(t Ty, d int) *Node {
	var cands []fnSig
	for _, f := range g.funcs {
		if f.ret == t {
			cands = append(cands, f)
		}
	}
	if len(cands) == 0 {
		return nil
	}
	f := cands[g.n(len(cands))]
	g.mark("user-call")
	c := &Node{K: "call", S: f.name, T: t}
	nargs := len(f.params)
	if f.ndef > 0 {
		nargs -= g.n(f.ndef + 1)
	}
	for i := 0; i < nargs; i++ {
		c.C = append(c.C, g.expr(f.params[i], d-1))
		kw := ""
		if g.p(0.25) && i == nargs-1 {
			g.mark("keyword-call")
			kw = fmt.Sprintf("p%d", i)
		}
		c.Kw = append(c.Kw, kw)
	}
	return c
}

func (g *gen) sliced(x *Node) []*Node {
	lo, hi := g.sliceBounds()
	return []*Node{x, lo, hi}
}

// ---- flat operator chains (no explicit parentheses: each language applies its own precedence) ----

func (g *gen) chainAtom() *Node {
	if v := g.varOf(TInt); v != nil && g.p(0.4) {
		if g.p(0.15) {
			g.mark("op:neg")
			return &Node{K: "un", S: "-", C: []*Node{v}, T: TInt}
		}
		return v
	}
	return iLit([]int64{0, 1, 2, 3, 5, 7, 10, 4, 6, -1, -3}[g.n(11)])
}

func (g *gen) chainArith(maxOps int) *Node {
	n := g.n(maxOps + 1)
	// precedence climbing over a random token sequence
	operands := []*Node{g.chainAtom()}
	var ops []string
	for i := 0; i < n; i++ {
		op := arith[g.n(len(arith))]
		r := g.chainAtom()
		if op == "//" || op == "%" {
			r = iLit([]int64{2, 3, 5, 7}[g.n(4)])
		}
		ops = append(ops, op)
		operands = append(operands, r)
	}
	// fold * // % first (left to right), then + -
	fold := func(level func(string) bool) {
		for i := 0; i < len(ops); {
			if level(ops[i]) {
				g.mark("op:" + ops[i])
				operands[i] = &Node{K: "bin", S: ops[i], C: []*Node{operands[i], operands[i+1]}, T: TInt}
				operands = append(operands[:i+1], operands[i+2:]...)
				ops = append(ops[:i], ops[i+1:]...)
			} else {
				i++
			}
		}
	}
	fold(func(o string) bool { return o == "*" || o == "//" || o == "%" })
	fold(func(o string) bool { return true })
	return operands[0]
}

func (g *gen) chainCmp() *Node {
	a := g.chainArith(3)
	if g.p(0.6) {
		op := cmps[g.n(6)]
		g.mark("op:" + op)
		a = &Node{K: "bin", S: op, C: []*Node{a, g.chainArith(2)}, T: TBool}
	}
	if g.p(0.25) {
		g.mark("op:not")
		a = &Node{K: "un", S: "not", C: []*Node{a}, T: TBool}
	}
	return a
}

// flatChain returns an unparenthesised expression mixing arithmetic, comparison, not, and, or.
func (g *gen) flatChain() *Node {
	g.mark("flat-chain")
	and := func() *Node {
		a := g.chainCmp()
		for g.p(0.35) {
			g.mark("op:and")
			a = &Node{K: "bin", S: "and", C: []*Node{a, g.chainCmp()}, T: TAny}
		}
		return a
	}
	a := and()
	for g.p(0.3) {
		g.mark("op:or")
		a = &Node{K: "bin", S: "or", C: []*Node{a, and()}, T: TAny}
	}
	return a
}

package c16

import (
	"fmt"
	"math/rand"
	"os"
	"testing"
	"time"
)

func TestBench(t *testing.T) {
	dir, _ := os.MkdirTemp("/tmp", "c16bench")
	defer os.RemoveAll(dir)
	ps, _ := StartPy(dir)
	defer ps.Close()
	ae, _ := NewAspEval(dir)
	p, _ := Generate(rand.New(rand.NewSource(5)))
	src := Render(p, py, "")
	st := time.Now()
	for i := 0; i < 1000; i++ {
		ps.Eval(src, p.Export)
	}
	fmt.Println("py", time.Since(st)/1000, len(src))
	st = time.Now()
	for i := 0; i < 1000; i++ {
		ae.Eval(p, "build")
	}
	fmt.Println("asp build", time.Since(st)/1000)
	st = time.Now()
	for i := 0; i < 1000; i++ {
		ae.Eval(p, "sub")
	}
	fmt.Println("asp sub", time.Since(st)/1000)
	st = time.Now()
	ae.reset()
	fmt.Println("reset", time.Since(st))
}

package c16

import (
	"math/rand"
	"strings"
)

// A Finding is one shrunk disagreement.
type Finding struct {
	Key         string `json:"key"`
	Route       string `json:"route"` // build | sub | sub-only
	Target      string `json:"target"`
	AspProgram  string `json:"asp_program"`
	PyProgram   string `json:"python_program"`
	AspValue    string `json:"asp_value"`
	PyValue     string `json:"python_value"`
	Chain       string `json:"operator_chain,omitempty"`
	ShrinkEvals int    `json:"shrink_evals"`
	Minimised   bool   `json:"minimised"`
	Original    string `json:"original_asp_program,omitempty"`
}

// A CaseResult is what the batch child reports for one generated program.
type CaseResult struct {
	Index     int               `json:"index"`
	Seed      int64             `json:"seed"`
	Hash      string            `json:"hash"`
	Feats     []string          `json:"feats"`
	PyOK      bool              `json:"py_ok"`
	PyErr     string            `json:"py_err,omitempty"`
	HangRisk  string            `json:"hang_risk,omitempty"`
	AspErr    map[string]string `json:"asp_err,omitempty"` // route -> error class
	AspOK     map[string]bool   `json:"asp_ok,omitempty"`
	Compared  int               `json:"compared"` // exported values compared (both routes)
	Differing int               `json:"differing"`
	Findings  []Finding         `json:"findings,omitempty"`
	Sample    string            `json:"sample,omitempty"`
	Vals      string            `json:"vals,omitempty"`
}

// An Engine owns the two evaluators of one process.
type Engine struct {
	Py           *PyServer
	Asp          *AspEval
	ShrinkBudget int
	MaxTargets   int
	minimised    map[string]int // witnesses minimised so far per class key (this process)
	pyCache      map[string]PyResult
}

func pyKey(q *Prog) (string, string) {
	src := Render(q, py, "")
	return src, src + "\x00" + strings.Join(q.Export, ",")
}

// pyEval is the (cached) CPython verdict on q.
func (e *Engine) pyEval(q *Prog) PyResult {
	src, key := pyKey(q)
	if r, ok := e.pyCache[key]; ok {
		return r
	}
	r, err := e.Py.Eval(src, q.Export)
	if err != nil {
		panic(err)
	}
	e.pyCache[key] = r
	return r
}

// prefetch asks CPython about a group of candidate programs in a single round trip.
func (e *Engine) prefetch(qs []*Prog) {
	var reqs []PyReq
	var keys []string
	seen := map[string]bool{}
	for _, q := range qs {
		src, key := pyKey(q)
		if _, ok := e.pyCache[key]; ok || seen[key] {
			continue
		}
		seen[key] = true
		reqs = append(reqs, PyReq{Src: src, Names: q.Export})
		keys = append(keys, key)
	}
	res, err := e.Py.EvalMany(reqs)
	if err != nil {
		panic(err)
	}
	for i, r := range res {
		e.pyCache[keys[i]] = r
	}
}

// NewEngine builds an engine around the two evaluators.
func NewEngine(py *PyServer, a *AspEval) *Engine {
	return &Engine{Py: py, Asp: a, ShrinkBudget: 1500, MaxTargets: 3, minimised: map[string]int{}, pyCache: map[string]PyResult{}}
}

func (e *Engine) disagrees(q *Prog, route string) (bool, []Diff) {
	pr := e.pyEval(q)
	if !pr.OK || pr.Risk != "" {
		return false, nil
	}
	av, err := e.Asp.Eval(q, route)
	if err != nil {
		return false, nil
	}
	d, err := diffVals(av, pr.Vals)
	if err != nil {
		return false, nil
	}
	return len(d) > 0, d
}

func oneLine(s string) string {
	return strings.ReplaceAll(strings.TrimSpace(s), "\n", " ⏎ ")
}

// RunCase generates, evaluates, compares and (on disagreement) shrinks one program.
func (e *Engine) RunCase(index int, seed int64) CaseResult {
	p, feats := Generate(rand.New(rand.NewSource(seed)))
	return e.RunProg(index, seed, p, feats)
}

// RunProg is RunCase for a given program.
func (e *Engine) RunProg(index int, seed int64, p *Prog, feats []string) CaseResult {
	res := CaseResult{Index: index, Seed: seed, Feats: feats, AspErr: map[string]string{}, AspOK: map[string]bool{}}
	e.pyCache = map[string]PyResult{}
	aspText := Render(p, asp, "")
	res.Hash = aspText
	pr := e.pyEval(p)
	res.PyOK = pr.OK
	if !pr.OK {
		res.PyErr = pr.Err
		return res
	}
	if pr.Risk != "" {
		res.HangRisk = pr.Risk
		return res
	}
	res.Sample, res.Vals = aspText, pr.Vals
	diffs := map[string][]Diff{}
	for _, route := range []string{"build", "sub"} {
		av, err := e.Asp.Eval(p, route)
		if err != nil {
			res.AspErr[route] = errClass(err)
			continue
		}
		res.AspOK[route] = true
		d, err := diffVals(av, pr.Vals)
		if err != nil {
			res.AspErr[route] = "export: " + err.Error()
			continue
		}
		res.Compared += len(p.Export)
		res.Differing += len(d)
		diffs[route] = d
	}
	seen := map[string]bool{}
	targets := 0
	for _, route := range []string{"build", "sub"} {
		for _, d := range diffs[route] {
			r := route
			if route == "sub" {
				same := false
				for _, b := range diffs["build"] {
					if b.Name == d.Name {
						same = true
					}
				}
				if same {
					continue // the BUILD route already covers this variable
				}
				if res.AspOK["build"] {
					r = "sub-only"
				}
			}
			if targets >= e.MaxTargets {
				break
			}
			targets++
			f := e.shrinkFinding(p, d.Name, r)
			if f == nil || seen[f.Key] {
				continue
			}
			seen[f.Key] = true
			if len(aspText) < 6000 {
				f.Original = aspText
			}
			res.Findings = append(res.Findings, *f)
		}
	}
	return res
}

func (e *Engine) agrees(q *Prog, route string) bool {
	pr := e.pyEval(q)
	if !pr.OK || pr.Risk != "" {
		return false
	}
	av, err := e.Asp.Eval(q, route)
	if err != nil {
		return false
	}
	d, err := diffVals(av, pr.Vals)
	return err == nil && len(d) == 0
}

// neutralisedBy reports whether the named neutraliser (all sites, or one site) makes q agree.
func (e *Engine) neutralisedBy(q *Prog, route, name string) bool {
	for _, n := range neutralisers {
		if n.name != name {
			continue
		}
		for _, r := range variants(n, q) {
			if e.agrees(r, route) {
				return true
			}
		}
	}
	return false
}

// shrinkFinding classifies (and, for the first witnesses of a key, minimises) one disagreement.
func (e *Engine) shrinkFinding(p *Prog, target, route string) *Finding {
	evalRoute := route
	if route == "sub-only" {
		evalRoute = "sub"
	}
	base := func(q *Prog) bool {
		dis, _ := e.disagrees(q, evalRoute)
		if dis && route == "sub-only" {
			// keep the defect specific to the subinclude route
			if b, _ := e.disagrees(q, "build"); b {
				return false
			}
		}
		return dis
	}
	start := p.clone()
	start.Export = []string{target}
	if !base(start) {
		return nil // not reproducible in isolation (should not happen: evaluation is deterministic)
	}
	if q := staticSlice(start, target); len(q.Stmts) < len(start.Stmts) && base(q) {
		start = q
	}
	suffix := ""
	if route == "sub-only" {
		suffix = "@subinclude"
	}
	finish := func(q *Prog, key string, shrunk bool, evals int) *Finding {
		_, d := e.disagrees(q, evalRoute)
		if len(d) == 0 {
			return nil
		}
		f := &Finding{Key: key + suffix, Route: route, Target: q.Export[0], AspProgram: Render(q, asp, ""), PyProgram: Render(q, py, ""),
			AspValue: d[0].Asp, PyValue: d[0].Py, ShrinkEvals: evals, Minimised: shrunk}
		if ch := longestChain(q); shrunk && len(ch) >= 2 {
			f.Chain = chainClasses(ch)
		}
		return f
	}
	// 1. Does the disagreement need the languages' own operator precedence?
	if len(longestChain(start)) >= 2 && e.agrees(parenthesised(start), evalRoute) {
		small, _, evals := Shrink(start, target, e.ShrinkBudget, e.prefetch, func(q *Prog) bool {
			return len(longestChain(q)) >= 2 && base(q) && e.agrees(parenthesised(q), evalRoute)
		})
		return finish(small, "prec/"+chainShape(longestChain(small)), true, evals)
	}
	// 2. Differential diagnosis on the (sliced) program.
	if class := e.classify(start, evalRoute, false); class != "" {
		if e.minimised[class+suffix] >= 1 {
			return finish(start, class, false, 0)
		}
		e.minimised[class+suffix]++
		small, _, evals := Shrink(start, target, e.ShrinkBudget, e.prefetch, func(q *Prog) bool {
			return base(q) && e.neutralisedBy(q, evalRoute, class)
		})
		return finish(small, class, true, evals)
	}
	// 3. Unknown class: minimise, then diagnose the minimal program; fall back to its skeleton.
	small, target, evals := Shrink(start, target, e.ShrinkBudget, e.prefetch, base)
	if len(longestChain(small)) >= 2 && e.agrees(parenthesised(small), evalRoute) {
		return finish(small, "prec/"+chainShape(longestChain(small)), true, evals)
	}
	if class := e.classify(small, evalRoute, true); class != "" {
		return finish(small, class, true, evals)
	}
	return finish(small, KeyOf(small, target, false), true, evals)
}

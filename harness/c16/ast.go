package c16

import (
	"fmt"
	"strconv"
	"strings"
)

// Static types used by the generator to keep programs type-correct in CPython.
type Ty int

const (
	TInt  Ty = iota // int
	TStr            // str
	TBool           // bool
	TLI             // list of int
	TLS             // list of str
	TLLI            // list of list of int
	TDI             // dict str -> int
	TAny            // anything (only exported / used for truthiness)
	TNone
)

var tyNames = map[Ty]string{TInt: "int", TStr: "str", TBool: "bool", TLI: "list[int]", TLS: "list[str]", TLLI: "list[list[int]]", TDI: "dict", TAny: "any", TNone: "none"}

// A Node is an expression or statement of the generated program.
//
// Expression kinds (K):
//
//	int  I                       integer literal (Oct => rendered as 0o literal)
//	str  S                       string literal
//	bool I / none                True / False / None
//	name S                       variable
//	list C...  / tuple C...      literal
//	dict  C = k0,v0,k1,v1...     literal
//	bin  S=op C=[l,r] Paren      binary operator (+ - * // % < <= > >= == != and or in notin | is isnot)
//	un   S=op C=[x]   Paren      unary "-" or "not"
//	cond C=[then,cond,else]      inline if
//	idx  C=[x,i]                 x[i]
//	slice C=[x,lo,hi] (lo/hi may be nil)
//	call S=fn C=args  Kw=names   builtin / user function call (Kw[i] != "" => keyword argument)
//	meth S=name C=[recv,args...] method call
//	lcomp C=[elt,iter,(cond)] Names   ; lcomp2 C=[elt,iter1,iter2,(cond)] Names=[n1,n2]
//	dcomp C=[key,val,iter,(cond)] Names
//	lambda Names C=[body]
//	fstr  Parts (even = literal text, odd = variable name)
//	strcat C=[str,str]           adjacent literal concatenation
//
// Statement kinds:
//
//	assign S=name C=[e]; aug S=name C=[e]; iset S=name C=[i,e]; iaug S=name C=[i,e]
//	unpack Names C=[e]; expr C=[e]; if C=[cond] Body Else (Else may start with an "if" for elif)
//	for Names C=[iter] Body; def S=name Names=params C=defaults(nil = none) Body; ret C=[e...]
//	break; continue; pass
type Node struct {
	K     string   `json:"k"`
	S     string   `json:"s,omitempty"`
	I     int64    `json:"i,omitempty"`
	C     []*Node  `json:"c,omitempty"`
	Names []string `json:"n,omitempty"`
	Kw    []string `json:"kw,omitempty"`
	Parts []string `json:"p,omitempty"`
	Body  []*Node  `json:"b,omitempty"`
	Else  []*Node  `json:"e,omitempty"`
	Paren bool     `json:"paren,omitempty"` // always parenthesise (otherwise only where Python's grammar needs it)
	Oct   bool     `json:"oct,omitempty"`
	T     Ty       `json:"t,omitempty"`
}

func (n *Node) clone() *Node {
	if n == nil {
		return nil
	}
	m := *n
	m.C = cloneList(n.C)
	m.Body = cloneList(n.Body)
	m.Else = cloneList(n.Else)
	m.Names = append([]string(nil), n.Names...)
	m.Kw = append([]string(nil), n.Kw...)
	m.Parts = append([]string(nil), n.Parts...)
	return &m
}

func cloneList(l []*Node) []*Node {
	if l == nil {
		return nil
	}
	out := make([]*Node, len(l))
	for i, x := range l {
		out[i] = x.clone()
	}
	return out
}

// A Prog is a program plus the names whose final values are compared.
type Prog struct {
	Stmts  []*Node  `json:"stmts"`
	Export []string `json:"export"`
}

func (p *Prog) clone() *Prog {
	return &Prog{Stmts: cloneList(p.Stmts), Export: append([]string(nil), p.Export...)}
}

// Python operator precedence (higher binds tighter); used to insert only the needed parentheses.
func pyPrec(n *Node) int {
	switch n.K {
	case "lambda":
		return 0
	case "cond":
		return 1
	case "chaincmp":
		return 5
	case "bin":
		switch n.S {
		case "or":
			return 2
		case "and":
			return 3
		case "<", "<=", ">", ">=", "==", "!=", "in", "not in", "is", "is not":
			return 5
		case "|":
			return 6
		case "+", "-":
			return 9
		default: // * // %
			return 10
		}
	case "un":
		if n.S == "not" {
			return 4
		}
		return 11
	}
	return 20
}

type lang int

const (
	asp lang = iota
	py
)

type renderer struct {
	l  lang
	sb strings.Builder
}

// Render renders the program for one of the two languages. The asp rendition ends with the export
// statement; exportVar != "" makes it a global string assignment (subinclude route) instead.
func Render(p *Prog, l lang, exportVar string) string {
	r := &renderer{l: l}
	r.stmts(p.Stmts, 0)
	if l == asp {
		var items []string
		for _, n := range p.Export {
			items = append(items, fmt.Sprintf("%q: %s", n, n))
		}
		d := "json({" + strings.Join(items, ", ") + "})"
		if exportVar != "" {
			r.sb.WriteString(exportVar + " = " + d + "\n")
		} else {
			r.sb.WriteString("text_file(name = \"v\", content = " + d + ")\n")
		}
	}
	return r.sb.String()
}

func (r *renderer) stmts(l []*Node, ind int) {
	if len(l) == 0 {
		r.line(ind, "pass")
	}
	for _, s := range l {
		r.stmt(s, ind)
	}
}

func (r *renderer) line(ind int, s string) {
	r.sb.WriteString(strings.Repeat("    ", ind))
	r.sb.WriteString(s)
	r.sb.WriteByte('\n')
}

func (r *renderer) stmt(s *Node, ind int) {
	switch s.K {
	case "assign":
		r.line(ind, s.S+" = "+r.expr(s.C[0], 0))
	case "aug":
		r.line(ind, s.S+" += "+r.expr(s.C[0], 0))
	case "iset":
		r.line(ind, s.S+"["+r.expr(s.C[0], 0)+"] = "+r.expr(s.C[1], 0))
	case "iaug":
		r.line(ind, s.S+"["+r.expr(s.C[0], 0)+"] += "+r.expr(s.C[1], 0))
	case "unpack":
		r.line(ind, strings.Join(s.Names, ", ")+" = "+r.expr(s.C[0], 0))
	case "expr":
		r.line(ind, r.expr(s.C[0], 0))
	case "if":
		r.ifStmt(s, ind, "if")
	case "for":
		r.line(ind, "for "+strings.Join(s.Names, ", ")+" in "+r.expr(s.C[0], 2)+":")
		r.stmts(s.Body, ind+1)
	case "def":
		var ps []string
		for i, n := range s.Names {
			if i < len(s.C) && s.C[i] != nil {
				ps = append(ps, n+" = "+r.expr(s.C[i], 1))
			} else {
				ps = append(ps, n)
			}
		}
		r.line(ind, "def "+s.S+"("+strings.Join(ps, ", ")+"):")
		r.stmts(s.Body, ind+1)
	case "ret":
		var es []string
		for _, e := range s.C {
			es = append(es, r.expr(e, 1))
		}
		r.line(ind, strings.TrimSpace("return "+strings.Join(es, ", ")))
	case "break", "continue", "pass":
		r.line(ind, s.K)
	default:
		panic("unknown statement kind " + s.K)
	}
}

func (r *renderer) ifStmt(s *Node, ind int, kw string) {
	r.line(ind, kw+" "+r.expr(s.C[0], 0)+":")
	r.stmts(s.Body, ind+1)
	if len(s.Else) == 1 && s.Else[0].K == "if" {
		r.ifStmt(s.Else[0], ind, "elif")
	} else if len(s.Else) > 0 {
		r.line(ind, "else:")
		r.stmts(s.Else, ind+1)
	}
}

// quote renders a string literal using only the escapes both languages document identically.
func quote(s string) string {
	var sb strings.Builder
	sb.WriteByte('"')
	for _, c := range s {
		switch c {
		case '"':
			sb.WriteString(`\"`)
		case '\\':
			sb.WriteString(`\\`)
		case '\n':
			sb.WriteString(`\n`)
		case '\t':
			sb.WriteString(`\t`)
		default:
			sb.WriteRune(c)
		}
	}
	sb.WriteByte('"')
	return sb.String()
}

// expr renders e; min is the lowest Python precedence that may appear unparenthesised here.
func (r *renderer) expr(e *Node, min int) string {
	s := r.expr0(e)
	if pyPrec(e) < min || (e.Paren && (e.K == "bin" || e.K == "un" || e.K == "cond")) {
		return "(" + s + ")"
	}
	return s
}

// base renders the operand of an index or slice. asp's grammar only accepts a subscript after a
// method call when the receiver is a plain identifier, so other method calls are parenthesised
// (which changes nothing in Python).
func (r *renderer) base(e *Node) string {
	s := r.expr(e, 20)
	if e.K == "meth" && e.C[0].K != "name" {
		return "(" + s + ")"
	}
	return s
}

func (r *renderer) list(l []*Node) string {
	out := make([]string, len(l))
	for i, x := range l {
		out[i] = r.expr(x, 1)
	}
	return strings.Join(out, ", ")
}

func (r *renderer) expr0(e *Node) string {
	switch e.K {
	case "int":
		if e.Oct {
			return "0o" + strconv.FormatInt(e.I, 8)
		}
		return strconv.FormatInt(e.I, 10)
	case "str":
		return quote(e.S)
	case "bool":
		if e.I != 0 {
			return "True"
		}
		return "False"
	case "none":
		return "None"
	case "name":
		return e.S
	case "list":
		return "[" + r.list(e.C) + "]"
	case "tuple":
		return "(" + r.list(e.C) + ")"
	case "dict":
		var items []string
		for i := 0; i+1 < len(e.C); i += 2 {
			items = append(items, r.expr(e.C[i], 1)+": "+r.expr(e.C[i+1], 1))
		}
		return "{" + strings.Join(items, ", ") + "}"
	case "bin":
		p := pyPrec(e)
		lp, rp := p, p+1 // left associative
		if p == 5 {
			lp = p + 1 // never render an implicit comparison chain unless the tree is one (see "chaincmp")
		}
		return r.expr(e.C[0], lp) + " " + e.S + " " + r.expr(e.C[1], rp)
	case "chaincmp": // a < b < c : C = operands, Kw = operators
		s := r.expr(e.C[0], 6)
		for i, op := range e.Kw {
			s += " " + op + " " + r.expr(e.C[i+1], 6)
		}
		return s
	case "un":
		if e.S == "not" {
			return "not " + r.expr(e.C[0], 4)
		}
		x := r.expr(e.C[0], 11)
		if strings.HasPrefix(x, "-") || (len(x) > 0 && x[0] >= '0' && x[0] <= '9') {
			x = "(" + x + ")" // "--1" / "-1" would be lexed differently by the two languages
		}
		return "-" + x
	case "cond":
		return r.expr(e.C[0], 2) + " if " + r.expr(e.C[1], 2) + " else " + r.expr(e.C[2], 1)
	case "idx":
		return r.base(e.C[0]) + "[" + r.expr(e.C[1], 1) + "]"
	case "slice":
		lo, hi := "", ""
		if e.C[1] != nil {
			lo = r.expr(e.C[1], 1)
		}
		if e.C[2] != nil {
			hi = r.expr(e.C[2], 1)
		}
		return r.base(e.C[0]) + "[" + lo + ":" + hi + "]"
	case "call":
		var as []string
		for i, a := range e.C {
			s := r.expr(a, 1)
			if i < len(e.Kw) && e.Kw[i] != "" {
				s = e.Kw[i] + " = " + s
			}
			as = append(as, s)
		}
		return e.S + "(" + strings.Join(as, ", ") + ")"
	case "meth":
		recv := r.expr(e.C[0], 20)
		if e.C[0].K == "int" {
			recv = "(" + recv + ")"
		}
		var as []string
		for i, a := range e.C[1:] {
			s := r.expr(a, 1)
			if i < len(e.Kw) && e.Kw[i] != "" {
				s = e.Kw[i] + " = " + s
			}
			as = append(as, s)
		}
		if r.l == py && (e.S == "keys" || e.S == "values" || e.S == "items") {
			// asp documents these as consistently (key-)ordered lists
			return "_" + e.S + "(" + recv + ")"
		}
		return recv + "." + e.S + "(" + strings.Join(as, ", ") + ")"
	case "lcomp":
		s := "[" + r.expr(e.C[0], 1) + " for " + strings.Join(e.Names, ", ") + " in " + r.expr(e.C[1], 2)
		if len(e.C) > 2 && e.C[2] != nil {
			s += " if " + r.expr(e.C[2], 2)
		}
		return s + "]"
	case "lcomp2":
		s := "[" + r.expr(e.C[0], 1) + " for " + e.Names[0] + " in " + r.expr(e.C[1], 2) + " for " + e.Names[1] + " in " + r.expr(e.C[2], 2)
		if len(e.C) > 3 && e.C[3] != nil {
			s += " if " + r.expr(e.C[3], 2)
		}
		return s + "]"
	case "dcomp":
		s := "{" + r.expr(e.C[0], 1) + ": " + r.expr(e.C[1], 1) + " for " + strings.Join(e.Names, ", ") + " in " + r.expr(e.C[2], 2)
		if len(e.C) > 3 && e.C[3] != nil {
			s += " if " + r.expr(e.C[3], 2)
		}
		return s + "}"
	case "lambda":
		return "lambda " + strings.Join(e.Names, ", ") + ": " + r.expr(e.C[0], 1)
	case "fstr":
		var sb strings.Builder
		sb.WriteString(`f"`)
		for i, p := range e.Parts {
			if i%2 == 0 {
				q := quote(p)
				sb.WriteString(q[1 : len(q)-1])
			} else {
				sb.WriteString("{" + p + "}")
			}
		}
		sb.WriteByte('"')
		return sb.String()
	case "strcat":
		return r.expr0(e.C[0]) + " " + r.expr0(e.C[1])
	}
	panic("unknown expression kind " + e.K)
}

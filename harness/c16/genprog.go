package c16

import (
	"math/rand"
	"sort"
)

var valueTypes = []Ty{TInt, TStr, TBool, TLI, TLS, TLLI, TDI}

// define creates `name = expr` for a fresh global of type t and registers it.
func (g *gen) define(t Ty, d int, out *[]*Node) string {
	n := g.fresh("v")
	*out = append(*out, &Node{K: "assign", S: n, C: []*Node{g.expr(t, d)}})
	if t != TAny {
		g.vars[t] = append(g.vars[t], n)
	}
	return n
}

// mutableVar picks a list/dict variable name of one of the given types.
func (g *gen) mutableVar(ts ...Ty) (string, Ty) {
	var cands []string
	var tys []Ty
	for _, t := range ts {
		for _, v := range g.vars[t] {
			cands = append(cands, v)
			tys = append(tys, t)
		}
	}
	if len(cands) == 0 {
		return "", TNone
	}
	i := g.n(len(cands))
	return cands[i], tys[i]
}

func elemType(t Ty) Ty {
	switch t {
	case TLI:
		return TInt
	case TLS:
		return TStr
	case TLLI:
		return TLI
	}
	return TInt
}

// stmt generates one statement (possibly compound); new definite globals go to exports.
func (g *gen) stmt(d int, exports *[]string, nest int) []*Node {
	var out []*Node
	g.flat = g.p(0.25)
	defer func() { g.flat = false }()
	canDefine := nest == 0 && !g.inFunc
	switch x := g.n(30); {
	case x < 7 && canDefine: // new variable
		t := valueTypes[g.n(len(valueTypes))]
		if g.p(0.12) {
			t = TAny
		}
		n := g.define(t, d, &out)
		*exports = append(*exports, n)
	case x < 10: // rebind an existing variable (same type)
		t := valueTypes[g.n(len(valueTypes))]
		if v := g.varOf(t); v != nil {
			out = append(out, &Node{K: "assign", S: v.S, C: []*Node{g.expr(t, d)}})
		}
	case x < 13: // augmented assignment
		t := []Ty{TInt, TStr, TLI, TLS, TLI, TLLI}[g.n(6)]
		if v := g.varOf(t); v != nil {
			g.mark("aug:" + tyNames[t])
			out = append(out, &Node{K: "aug", S: v.S, C: []*Node{g.expr(t, d-1)}})
		}
	case x < 16: // index assignment
		if v, t := g.mutableVar(TLI, TLS, TLLI, TDI); v != "" {
			k := "iset"
			if g.p(0.3) {
				k = "iaug"
			}
			g.mark(k)
			if t == TDI {
				out = append(out, &Node{K: k, S: v, C: []*Node{sLit(pickS(g, keyPool)), g.intExpr(d - 1)}})
			} else {
				out = append(out, &Node{K: k, S: v, C: []*Node{iLit([]int64{0, 0, 1, 1, 2, -1}[g.n(6)]), g.expr(elemType(t), d-1)}})
			}
		}
	case x < 18 && canDefine: // alias
		if v, t := g.mutableVar(TLI, TLS, TLLI, TDI); v != "" {
			g.mark("alias")
			n := g.fresh("v")
			out = append(out, &Node{K: "assign", S: n, C: []*Node{name(v, t)}})
			g.vars[t] = append(g.vars[t], n)
			*exports = append(*exports, n)
		}
	case x < 20 && nest < 2: // if / elif / else
		g.mark("if")
		s := &Node{K: "if", C: []*Node{g.condExpr(d)}}
		s.Body = g.block(d, exports, nest+1, 1+g.n(2))
		if g.p(0.3) {
			g.mark("elif")
			e := &Node{K: "if", C: []*Node{g.condExpr(d)}, Body: g.block(d, exports, nest+1, 1)}
			if g.p(0.5) {
				e.Else = g.block(d, exports, nest+1, 1)
			}
			s.Else = []*Node{e}
		} else if g.p(0.5) {
			s.Else = g.block(d, exports, nest+1, 1+g.n(2))
		}
		out = append(out, s)
	case x < 23 && nest < 2: // for
		out = append(out, g.forStmt(d, exports, nest))
	case x < 24 && canDefine: // unpack
		g.mark("unpack")
		a, b := g.fresh("v"), g.fresh("v")
		ta, tb := valueTypes[g.n(3)], valueTypes[g.n(5)]
		k := "list"
		if g.p(0.5) {
			k = "tuple"
		}
		out = append(out, &Node{K: "unpack", Names: []string{a, b}, C: []*Node{{K: k, C: []*Node{g.expr(ta, d-1), g.expr(tb, d-1)}}}})
		g.vars[ta] = append(g.vars[ta], a)
		g.vars[tb] = append(g.vars[tb], b)
		*exports = append(*exports, a, b)
	case x < 25:
		if v, _ := g.mutableVar(TDI); v != "" && g.p(0.15) {
			g.mark("dict.setdefault")
			out = append(out, &Node{K: "expr", C: []*Node{meth("setdefault", TInt, name(v, TDI), sLit(pickS(g, keyPool)), g.intExpr(d-1))}})
		}
	case x < 26 && g.inLoop:
		if g.p(0.5) {
			g.mark("break")
			out = append(out, &Node{K: "if", C: []*Node{g.boolExpr(1)}, Body: []*Node{{K: "break"}}})
		} else {
			g.mark("continue")
			out = append(out, &Node{K: "if", C: []*Node{g.boolExpr(1)}, Body: []*Node{{K: "continue"}}})
		}
	case x < 28 && canDefine:
		out = append(out, g.aliasTemplate(d, exports)...)
	}
	if len(out) == 0 {
		if canDefine {
			n := g.define(valueTypes[g.n(len(valueTypes))], d, &out)
			*exports = append(*exports, n)
		} else if v := g.varOf(TInt); v != nil {
			out = append(out, &Node{K: "aug", S: v.S, C: []*Node{g.intExpr(d - 1)}})
		} else {
			out = append(out, &Node{K: "pass"})
		}
	}
	return out
}

func (g *gen) block(d int, exports *[]string, nest, n int) []*Node {
	var out []*Node
	for i := 0; i < n; i++ {
		out = append(out, g.stmt(d, exports, nest)...)
	}
	return out
}

func (g *gen) forStmt(d int, exports *[]string, nest int) *Node {
	g.mark("for")
	s := &Node{K: "for"}
	extra := map[Ty][]string{}
	lv := g.fresh("i")
	switch g.n(6) {
	case 0, 1:
		s.Names, s.C = []string{lv}, []*Node{g.liExpr(d - 1)}
		extra[TInt] = []string{lv}
	case 2:
		s.Names, s.C = []string{lv}, []*Node{g.rangeCall()}
		extra[TInt] = []string{lv}
	case 3:
		s.Names, s.C = []string{lv}, []*Node{g.lsExpr(d - 1)}
		extra[TStr] = []string{lv}
	case 4:
		g.mark("for-enumerate")
		lv2 := g.fresh("i")
		s.Names, s.C = []string{lv, lv2}, []*Node{call("enumerate", TAny, g.lsExpr(d-1))}
		extra[TInt], extra[TStr] = []string{lv}, []string{lv2}
	default:
		g.mark("for-items")
		lv2 := g.fresh("i")
		s.Names, s.C = []string{lv, lv2}, []*Node{meth("items", TAny, g.dictExpr(d-1))}
		extra[TStr], extra[TInt] = []string{lv}, []string{lv2}
	}
	saved := g.inLoop
	g.inLoop = true
	g.withVars(extra, func() *Node {
		s.Body = g.block(d, exports, nest+1, 1+g.n(3))
		return nil
	})
	g.inLoop = saved
	return s
}

// aliasTemplate emits the aliasing / freshness patterns the property singles out.
func (g *gen) aliasTemplate(d int, exports *[]string) []*Node {
	var out []*Node
	exp := func(n string, t Ty) {
		g.vars[t] = append(g.vars[t], n)
		*exports = append(*exports, n)
	}
	lit := func() *Node {
		l := &Node{K: "list", T: TLI}
		for i, n := 0, 2+g.n(4); i < n; i++ {
			l.C = append(l.C, iLit(smallInts[g.n(len(smallInts))]))
		}
		return l
	}
	mutate := func(v string) *Node {
		switch g.n(5) {
		case 0:
			return &Node{K: "iset", S: v, C: []*Node{iLit(int64(g.n(2))), g.intLit()}}
		case 1:
			return &Node{K: "iaug", S: v, C: []*Node{iLit(int64(g.n(2))), g.intLit()}}
		case 2:
			return &Node{K: "aug", S: v, C: []*Node{lit()}}
		case 3:
			t := g.fresh("v")
			exp(t, TLI)
			return &Node{K: "assign", S: t, C: []*Node{call([]string{"sorted", "reversed"}[g.n(2)], TLI, name(v, TLI))}}
		}
		t := g.fresh("v")
		exp(t, TLI)
		return &Node{K: "assign", S: t, C: []*Node{g.bin("+", name(v, TLI), lit(), TLI)}}
	}
	switch g.n(7) {
	case 0: // function returning a literal, called twice with a mutation in between
		g.mark("tmpl:fresh-literal-in-function")
		f := g.fresh("f")
		var ret *Node
		rt := TLI
		switch g.n(4) {
		case 0:
			ret = &Node{K: "dict", C: []*Node{sLit("a"), iLit(1), sLit("b"), iLit(2)}, T: TDI}
			rt = TDI
		case 1:
			ret = &Node{K: "list", C: []*Node{lit(), lit()}, T: TLLI}
			rt = TLLI
		default:
			ret = lit()
		}
		out = append(out, &Node{K: "def", S: f, Body: []*Node{{K: "ret", C: []*Node{ret}}}})
		a, b := g.fresh("v"), g.fresh("v")
		out = append(out, &Node{K: "assign", S: a, C: []*Node{call(f, rt)}})
		switch rt {
		case TDI:
			out = append(out, &Node{K: "iset", S: a, C: []*Node{sLit(pickS(g, keyPool)), g.intLit()}})
		case TLLI:
			t := g.fresh("v")
			out = append(out, &Node{K: "assign", S: t, C: []*Node{{K: "idx", C: []*Node{name(a, TLLI), iLit(0)}, T: TLI}}}, mutate(t))
			exp(t, TLI)
		default:
			out = append(out, mutate(a))
		}
		out = append(out, &Node{K: "assign", S: b, C: []*Node{call(f, rt)}})
		exp(a, rt)
		exp(b, rt)
		g.funcs = append(g.funcs, fnSig{name: f, ret: rt})
	case 1: // slice then mutate / extend
		g.mark("tmpl:slice-alias")
		a, b := g.fresh("v"), g.fresh("v")
		out = append(out, &Node{K: "assign", S: a, C: []*Node{lit()}})
		out = append(out, &Node{K: "assign", S: b, C: []*Node{{K: "slice", C: g.sliced(name(a, TLI)), T: TLI}}})
		exp(a, TLI)
		exp(b, TLI)
		out = append(out, mutate(b))
		if g.p(0.5) {
			out = append(out, mutate(b))
		}
	case 2: // filtered comprehension (spare capacity) then two concatenations
		g.mark("tmpl:comprehension-capacity")
		a := g.fresh("v")
		c := g.withVars(map[Ty][]string{TInt: {"x"}}, func() *Node {
			return &Node{K: "lcomp", Names: []string{"x"}, C: []*Node{name("x", TInt), lit(), g.bin(cmps[g.n(6)], name("x", TInt), iLit(int64(g.n(5))), TBool)}, T: TLI}
		})
		out = append(out, &Node{K: "assign", S: a, C: []*Node{c}})
		exp(a, TLI)
		out = append(out, mutate(a), mutate(a))
	case 3: // loop building a list of lists from a literal
		g.mark("tmpl:literal-in-loop")
		acc, t, i := g.fresh("v"), g.fresh("t"), g.fresh("i")
		out = append(out, &Node{K: "assign", S: acc, C: []*Node{{K: "list", T: TLLI}}})
		body := []*Node{
			{K: "assign", S: t, C: []*Node{lit()}},
			{K: "iset", S: t, C: []*Node{iLit(0), name(i, TInt)}},
			{K: "aug", S: acc, C: []*Node{{K: "list", C: []*Node{name(t, TLI)}, T: TLLI}}},
		}
		out = append(out, &Node{K: "for", Names: []string{i}, C: []*Node{call("range", TLI, iLit(int64(2+g.n(2))))}, Body: body})
		exp(acc, TLLI)
	case 4: // mutable default argument
		g.mark("tmpl:mutable-default")
		f := g.fresh("f")
		body := []*Node{mutateParam(g), {K: "ret", C: []*Node{name("p1", TLI)}}}
		out = append(out, &Node{K: "def", S: f, Names: []string{"p0", "p1"}, C: []*Node{nil, lit()}, Body: body})
		a, b := g.fresh("v"), g.fresh("v")
		out = append(out, &Node{K: "assign", S: a, C: []*Node{call(f, TLI, g.intLit())}})
		out = append(out, &Node{K: "assign", S: b, C: []*Node{call(f, TLI, g.intLit())}})
		exp(a, TLI)
		exp(b, TLI)
	case 5: // function mutating its argument
		g.mark("tmpl:mutate-argument")
		f := g.fresh("f")
		body := []*Node{mutateParam(g), {K: "ret", C: []*Node{name("p0", TInt)}}}
		out = append(out, &Node{K: "def", S: f, Names: []string{"p0", "p1"}, Body: body})
		a, b := g.fresh("v"), g.fresh("v")
		out = append(out, &Node{K: "assign", S: a, C: []*Node{lit()}})
		out = append(out, &Node{K: "assign", S: b, C: []*Node{call(f, TInt, g.intLit(), name(a, TLI))}})
		exp(a, TLI)
		exp(b, TInt)
	default: // alias then mutate
		g.mark("tmpl:alias-mutate")
		a, b := g.fresh("v"), g.fresh("v")
		out = append(out, &Node{K: "assign", S: a, C: []*Node{lit()}})
		var src *Node
		switch g.n(4) {
		case 0:
			src = name(a, TLI)
		case 1:
			src = g.bin("*", name(a, TLI), iLit(1), TLI)
		case 2:
			src = g.bin("+", name(a, TLI), &Node{K: "list", T: TLI}, TLI)
		default:
			src = g.bin("or", name(a, TLI), lit(), TLI)
		}
		out = append(out, &Node{K: "assign", S: b, C: []*Node{src}})
		exp(a, TLI)
		exp(b, TLI)
		out = append(out, mutate(b))
	}
	return out
}

func mutateParam(g *gen) *Node {
	switch g.n(3) {
	case 0:
		return &Node{K: "iset", S: "p1", C: []*Node{iLit(0), name("p0", TInt)}}
	case 1:
		return &Node{K: "aug", S: "p1", C: []*Node{{K: "list", C: []*Node{name("p0", TInt)}, T: TLI}}}
	}
	return &Node{K: "iaug", S: "p1", C: []*Node{iLit(1), name("p0", TInt)}}
}

// funcDef generates a small function over typed parameters.
func (g *gen) funcDef(d int) *Node {
	g.mark("def")
	f := g.fresh("f")
	np := g.n(4)
	sig := fnSig{name: f, ret: valueTypes[g.n(len(valueTypes))]}
	def := &Node{K: "def", S: f}
	extra := map[Ty][]string{}
	for i := 0; i < np; i++ {
		t := valueTypes[g.n(len(valueTypes))]
		pn := "p" + string(rune('0'+i))
		sig.params = append(sig.params, t)
		def.Names = append(def.Names, pn)
		def.C = append(def.C, nil)
		extra[t] = append(extra[t], pn)
	}
	// trailing defaults (literals only: both languages then agree on when they are evaluated)
	for i := np - 1; i >= 0 && g.p(0.4); i-- {
		def.C[i] = g.expr(sig.params[i], 0)
		if def.C[i].K == "name" {
			def.C[i] = g.expr(sig.params[i], -1)
			if def.C[i].K == "name" {
				break
			}
		}
		g.mark("default-arg")
		sig.ndef++
	}
	savedF, savedL := g.inFunc, g.inLoop
	g.inFunc, g.inLoop = true, false
	g.withVars(extra, func() *Node {
		var dummy []string
		// local temporaries
		for i, n := 0, g.n(3); i < n; i++ {
			t := valueTypes[g.n(len(valueTypes))]
			ln := g.fresh("t")
			def.Body = append(def.Body, &Node{K: "assign", S: ln, C: []*Node{g.expr(t, d-1)}})
			g.vars[t] = append(g.vars[t], ln) // restored by withVars for the types in extra only; see below
			defer func(t Ty) { g.vars[t] = removeName(g.vars[t], ln) }(t)
		}
		if g.p(0.5) {
			// restrict mutations in bodies to locals / params: pick statements that do not define
			def.Body = append(def.Body, g.stmt(d-1, &dummy, 1)...)
		}
		if g.p(0.25) {
			g.mark("early-return")
			def.Body = append(def.Body, &Node{K: "if", C: []*Node{g.boolExpr(1)}, Body: []*Node{{K: "ret", C: []*Node{g.expr(sig.ret, d-1)}}}})
		}
		def.Body = append(def.Body, &Node{K: "ret", C: []*Node{g.expr(sig.ret, d-1)}})
		return nil
	})
	g.inFunc, g.inLoop = savedF, savedL
	g.funcs = append(g.funcs, sig)
	return def
}

func removeName(l []string, n string) []string {
	out := l[:0:0]
	for _, x := range l {
		if x != n {
			out = append(out, x)
		}
	}
	return out
}

// Generate builds one program from the rng.
func Generate(rng *rand.Rand) (*Prog, []string) {
	g := &gen{rng: rng, vars: map[Ty][]string{}, feat: map[string]bool{}}
	p := &Prog{}
	d := 1 + g.n(3)
	// a few initial variables so that later expressions have something to refer to
	for i, n := 0, 2+g.n(4); i < n; i++ {
		t := valueTypes[g.n(len(valueTypes))]
		nm := g.define(t, 1, &p.Stmts)
		p.Export = append(p.Export, nm)
	}
	for i, n := 0, g.n(3); i < n; i++ {
		p.Stmts = append(p.Stmts, g.funcDef(d))
	}
	for i, n := 0, 2+g.n(7); i < n; i++ {
		p.Stmts = append(p.Stmts, g.stmt(d, &p.Export, 0)...)
	}
	feats := make([]string, 0, len(g.feat))
	for f := range g.feat {
		feats = append(feats, f)
	}
	sort.Strings(feats)
	return p, feats
}

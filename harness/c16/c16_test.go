// C16 — the BUILD language agrees with CPython on its documented subset; evaluating a function or
// literal twice yields independent fresh values.
//
// Monitor: a seeded program generator (typed ASTs over the documented subset, gen*.go) renders each
// program as asp and as Python. The asp rendition is evaluated through Please's real parser and
// interpreter in-process (parse.InitParser + state.Parser.ParseFile on a scratch package; once as a
// BUILD file and once inside a subinclude()d .build_defs file, the only route on which the parser's
// optimiser and constant folding run); values leave through json() into a text_file target. CPython
// (python3, persistent oracle process with the asp-only spellings as a prelude) evaluates the Python
// rendition. Exported globals are compared as parsed JSON. Disagreeing programs are shrunk and keyed
// by the normalised minimal program. All in-process evaluation happens in lib.Child batches.
package c16

import (
	"bufio"
	"encoding/json"
	"fmt"
	"math/rand"
	"os"
	"path/filepath"
	"runtime"
	"sort"
	"strings"
	"sync"
	"sync/atomic"
	"testing"
	"time"

	"verifharness/lib"
)

const batchSize = 100

type caseSpec struct {
	Index int   `json:"index"`
	Seed  int64 `json:"seed"`
}

type batchSpec struct {
	Cases    []caseSpec `json:"cases"`
	Sentinel bool       `json:"sentinel"`
	Only     int        `json:"only"` // replay: run just this case index (-1000000 = all)
	Out      string     `json:"out"`
	Progress string     `json:"progress"`
	Dir      string     `json:"dir"`
}

const allCases = -1000000

// TestC16Child evaluates one batch in its own process.
func TestC16Child(t *testing.T) {
	if !lib.IsChild() {
		t.Skip("batch child only")
	}
	var spec batchSpec
	b, err := os.ReadFile(os.Getenv("C16_SPEC"))
	if err != nil || json.Unmarshal(b, &spec) != nil {
		t.Fatalf("bad batch spec: %v", err)
	}
	dir, err := os.MkdirTemp(spec.Dir, "child")
	if err != nil {
		t.Fatal(err)
	}
	pys, err := StartPy(dir)
	if err != nil {
		t.Fatal(err)
	}
	defer pys.Close()
	ae, err := NewAspEval(dir)
	if err != nil {
		t.Fatal(err)
	}
	eng := NewEngine(pys, ae)
	// Watchdog: a single case normally takes milliseconds to a few seconds. A case that runs for
	// minutes or allocates gigabytes is an interpreter hang / blow-up: leave the process (the parent
	// records it as an observation, never as a verdict, and continues after this case).
	var caseStart atomic.Int64
	caseStart.Store(time.Now().UnixNano())
	go func() {
		var ms runtime.MemStats
		for {
			time.Sleep(100 * time.Millisecond)
			if time.Since(time.Unix(0, caseStart.Load())) > 180*time.Second {
				os.Exit(3)
			}
			runtime.ReadMemStats(&ms)
			if ms.HeapAlloc > 3<<30 {
				os.Exit(4)
			}
		}
	}()
	out, err := os.OpenFile(spec.Out, os.O_APPEND|os.O_CREATE|os.O_WRONLY, 0o644)
	if err != nil {
		t.Fatal(err)
	}
	defer out.Close()
	prog, err := os.OpenFile(spec.Progress, os.O_APPEND|os.O_CREATE|os.O_WRONLY, 0o644)
	if err != nil {
		t.Fatal(err)
	}
	defer prog.Close()
	emit := func(res CaseResult) {
		line, _ := json.Marshal(res)
		out.Write(append(line, '\n'))
	}
	if spec.Sentinel {
		for i, p := range sentinels() {
			idx := -1 - i
			if spec.Only != allCases && spec.Only != idx {
				continue
			}
			fmt.Fprintf(prog, "%d\n", idx)
			caseStart.Store(time.Now().UnixNano())
			emit(eng.RunProg(idx, 0, p, []string{"sentinel"}))
		}
		return
	}
	for _, c := range spec.Cases {
		if spec.Only != allCases && spec.Only != c.Index {
			continue
		}
		fmt.Fprintf(prog, "%d\n", c.Index)
		caseStart.Store(time.Now().UnixNano())
		emit(eng.RunCase(c.Index, c.Seed))
	}
}

type agg struct {
	mu          sync.Mutex
	keyCounts   map[string]int
	fatals      []map[string]any
	aspErrs     map[string]int
	pyErrs      map[string]int
	featValid   map[string]int
	featCompare map[string]int
	valid       int
	vacuous     int
	best        map[string]bestWitness
}

type bestWitness struct {
	f     Finding
	batch int
	index int
	seed  int64
}

// better prefers minimised witnesses, then shorter programs, then the lower case index (deterministic).
func better(a, b bestWitness) bool {
	if a.f.Minimised != b.f.Minimised {
		return a.f.Minimised
	}
	if len(a.f.AspProgram) != len(b.f.AspProgram) {
		return len(a.f.AspProgram) < len(b.f.AspProgram)
	}
	return a.index < b.index
}

func readLines(path string) []string {
	f, err := os.Open(path)
	if err != nil {
		return nil
	}
	defer f.Close()
	var out []string
	sc := bufio.NewScanner(f)
	sc.Buffer(make([]byte, 1<<20), 64<<20)
	for sc.Scan() {
		if s := strings.TrimSpace(sc.Text()); s != "" {
			out = append(out, s)
		}
	}
	return out
}

func runBatch(r *lib.Run, a *agg, bi int, spec batchSpec) {
	base := filepath.Join(r.Scratch(), fmt.Sprintf("batch%d", bi))
	os.MkdirAll(base, 0o755)
	spec.Dir = base
	done := map[int]bool{}
	total := len(spec.Cases)
	if spec.Sentinel {
		total = len(sentinels())
	}
	if spec.Only != allCases {
		total = 1
	}
	for attempt := 0; attempt < 8 && len(done) < total; attempt++ {
		spec.Out = filepath.Join(base, fmt.Sprintf("out%d.jsonl", attempt))
		spec.Progress = filepath.Join(base, fmt.Sprintf("progress%d", attempt))
		specFile := filepath.Join(base, fmt.Sprintf("spec%d.json", attempt))
		os.WriteFile(specFile, []byte(lib.JSON(spec)), 0o644)
		res := lib.Child("TestC16Child", []string{"C16_SPEC=" + specFile}, 45*time.Minute)
		r.Obs("child_processes", 1)
		for _, line := range readLines(spec.Out) {
			var cr CaseResult
			if json.Unmarshal([]byte(line), &cr) != nil {
				continue
			}
			if !done[cr.Index] {
				done[cr.Index] = true
				account(r, a, bi, cr)
			}
		}
		if len(done) >= total {
			break
		}
		// The child stopped early: find the case it was working on.
		last, started := 0, false
		for _, l := range readLines(spec.Progress) {
			fmt.Sscanf(l, "%d", &last)
			started = true
		}
		if !started {
			r.Inconclusive(fmt.Sprintf("batch %d: child produced nothing (exit %d %s): %s", bi, res.Exit, res.Signal, tail(res.Stderr, 400)))
			return
		}
		kind := "asp_process_fatal"
		switch {
		case res.Exit == 3 || res.TimedOut:
			kind = "asp_case_watchdog_stopped"
		case res.Exit == 4:
			kind = "asp_memory_blowup_stopped"
		}
		r.Obs(kind, 1)
		done[last] = true
		a.mu.Lock()
		if len(a.fatals) < 5 {
			a.fatals = append(a.fatals, map[string]any{"kind": kind, "batch": bi, "case_index": last, "exit": res.Exit, "signal": res.Signal, "stderr_tail": tail(res.Stderr, 600)})
		}
		a.mu.Unlock()
		// continue after the fatal case
		if spec.Sentinel || spec.Only != allCases {
			if spec.Only != allCases {
				return
			}
			continue // sentinel child skips nothing by index order; finished ones are deduplicated
		}
		var rest []caseSpec
		for _, c := range spec.Cases {
			if !done[c.Index] {
				rest = append(rest, c)
			}
		}
		spec.Cases = rest
	}
}

func tail(s string, n int) string {
	if len(s) > n {
		return s[len(s)-n:]
	}
	return s
}

func account(r *lib.Run, a *agg, bi int, cr CaseResult) {
	evaluated := cr.PyOK && (cr.AspOK["build"] || cr.AspOK["sub"])
	r.Case(cr.Hash, evaluated)
	r.Obs("programs_generated", 1)
	a.mu.Lock()
	defer a.mu.Unlock()
	if !cr.PyOK {
		r.Obs("python_out_of_subset", 1)
		cls := cr.PyErr
		if i := strings.IndexByte(cls, ':'); i > 0 {
			cls = cls[:i]
		}
		a.pyErrs[cls]++
		return
	}
	r.Obs("python_valid", 1)
	a.valid++
	if cr.HangRisk != "" {
		r.Obs("asp_not_run_known_nontermination(range start<stop step<0)", 1)
		return
	}
	for _, f := range cr.Feats {
		a.featValid[f]++
	}
	for _, route := range []string{"build", "sub"} {
		if cr.AspOK[route] {
			r.Obs("asp_evaluated_"+route, 1)
		} else {
			r.Obs("asp_error_"+route, 1)
			a.aspErrs[cr.AspErr[route]]++
		}
	}
	if !evaluated {
		r.Obs("vacuous_asp_error_both_routes", 1)
		a.vacuous++
		return
	}
	r.Obs("programs_compared", 1)
	for _, f := range cr.Feats {
		a.featCompare[f]++
		r.ObsDistinct("features_in_compared_programs", f)
	}
	r.Obs("values_compared", int64(cr.Compared))
	r.Obs("values_differing", int64(cr.Differing))
	if cr.Differing == 0 {
		r.Obs("programs_agreeing", 1)
	} else {
		r.Obs("programs_disagreeing", 1)
	}
	if r.WantSample() && cr.Differing == 0 && len(cr.Sample) < 1500 && len(cr.Sample) > 200 {
		r.Sample(map[string]any{"asp_program": cr.Sample, "values_both_languages": json.RawMessage(cr.Vals)})
	}
	for _, f := range cr.Findings {
		r.Obs("shrink_evaluations", int64(f.ShrinkEvals))
		a.keyCounts[f.Key]++
		w := bestWitness{f: f, batch: bi, index: cr.Index, seed: cr.Seed}
		if cur, ok := a.best[f.Key]; !ok || better(w, cur) {
			a.best[f.Key] = w
		}
	}
}

func top(m map[string]int, n int) []string {
	var ks []string
	for k := range m {
		ks = append(ks, k)
	}
	sort.Slice(ks, func(i, j int) bool {
		if m[ks[i]] != m[ks[j]] {
			return m[ks[i]] > m[ks[j]]
		}
		return ks[i] < ks[j]
	})
	var out []string
	for i, k := range ks {
		if i < n {
			out = append(out, fmt.Sprintf("%d× %s", m[k], k))
		}
	}
	return out
}

func TestC16(t *testing.T) {
	if lib.IsChild() {
		t.Skip("parent only")
	}
	r := lib.Start("C16")
	defer lib.End(t, r)
	r.Rule = "program i is generated from CaseSeed(\"prog\", i) alone: typed random ASTs over ints (negative, zero, large-but-safe, 0o), strings (ASCII and non-ASCII, escapes), lists, nested lists, string-keyed dicts, comprehensions (1-2 for, if), def with defaults / keyword calls, lambdas, if/elif/else, for/break/continue, += and index assignment, inline if, flat (unparenthesised) operator chains, the documented builtins and string/dict methods, % and format() and f-strings, plus aliasing templates (b = a then mutate, function returning a literal called twice, slices, default-argument lists, literals in loops). Distinct by the rendered asp text; non-trivial = CPython accepts it inside the documented subset (no exception, every intermediate int within ±2^62, no float) AND asp evaluates it without error on at least one route, so that values were actually compared"
	r.Assumes = []string{
		"python3 on PATH is CPython and is the reference; the prelude (range/map/filter/zip/enumerate/reversed return lists, dict keys()/values()/items() are key-ordered lists, zip needs equal lengths) encodes only what docs/lexicon.html and docs/language.html state",
		"asp is entered through parse.InitParser + state.Parser.ParseFile (BUILD route) and through the real subinclude() builtin with a pre-built target (subinclude route); values leave through json() and text_file(content=...)",
		"an asp error makes a case vacuous (statement: 'if Please evaluates it without error'); programs CPython rejects are outside the subset",
	}
	n := r.Pick(1500, 40000)
	nb := (n + batchSize - 1) / batchSize
	only := allCases
	if r.Replaying() {
		var rp struct {
			Witness struct {
				Case int `json:"case_index"`
			} `json:"witness"`
		}
		if b, err := os.ReadFile(os.Getenv("VERIF_REPLAY")); err == nil && json.Unmarshal(b, &rp) == nil {
			only = rp.Witness.Case
		}
	}
	a := &agg{keyCounts: map[string]int{}, aspErrs: map[string]int{}, pyErrs: map[string]int{}, featValid: map[string]int{}, featCompare: map[string]int{}, best: map[string]bestWitness{}}
	r.ForEach("batch", nb+1, 8, func(bi int, _ *rand.Rand) {
		spec := batchSpec{Only: only}
		if bi == nb {
			spec.Sentinel = true
		} else {
			for i := bi * batchSize; i < (bi+1)*batchSize && i < n; i++ {
				spec.Cases = append(spec.Cases, caseSpec{Index: i, Seed: r.CaseSeed("prog", i)})
			}
		}
		runBatch(r, a, bi, spec)
	})
	var keys []string
	for k := range a.best {
		keys = append(keys, k)
	}
	sort.Strings(keys)
	for _, k := range keys {
		w := a.best[k]
		f := w.f
		what := fmt.Sprintf("asp (%s route) gives %s = %s, CPython gives %s, for: %s", f.Route, f.Target, f.AspValue, f.PyValue, oneLine(f.AspProgram))
		if f.Chain != "" {
			what += " [operator chain: " + f.Chain + "]"
		}
		what += fmt.Sprintf(" (%d programs in this run)", a.keyCounts[k])
		r.Violation(k, what, map[string]any{
			"case_index": w.index, "case_seed": w.seed, "route": f.Route, "observed_global": f.Target, "minimised": f.Minimised,
			"asp_program": f.AspProgram, "python_program": f.PyProgram, "asp_value": f.AspValue, "python_value": f.PyValue,
			"operator_chain": f.Chain, "original_asp_program": f.Original, "shrink_evaluations": f.ShrinkEvals,
		}, w.batch)
	}
	r.Extra("violation_key_counts", a.keyCounts)
	r.Extra("asp_error_classes_top", top(a.aspErrs, 25))
	r.Extra("python_rejection_classes_top", top(a.pyErrs, 12))
	r.Extra("features_in_compared_programs_counts", a.featCompare)
	if len(a.fatals) > 0 {
		r.Extra("stopped_children", a.fatals)
	}
	r.RequireObserved("python_valid", "programs_compared", "values_compared", "asp_evaluated_build", "asp_evaluated_sub")
	if !r.Replaying() && a.vacuous*2 > a.valid {
		// DESIGN: a run in which more than half of the in-subset programs error in asp decides nothing
		r.FatalInconclusive(fmt.Sprintf("asp rejected %d of %d in-subset programs", a.vacuous, a.valid))
	}
}

package c16

// Classification of a disagreement by differential diagnosis. A "neutraliser" rewrites one kind of
// construct of the program (in both renditions) into an equivalent form that does not depend on the
// suspected behaviour: sorted(x) -> sorted(<fresh copy of x>), a % b -> ((a % b) + b) % b, x += e ->
// x = x + e, 0o17 -> 15, ... If the languages agree on the rewritten program, the disagreement is
// attributed to that construct and the witness key is the neutraliser's name: stable across seeds
// and contexts, and specific (a different defect of the same builtin is not neutralised by the
// rewrite and falls through to the skeleton key of its shrunk program).

type neutraliser struct {
	name string
	// late neutralisers are only tried on minimised programs; their key is completed by keySuffix.
	late      bool
	keySuffix func(p *Prog) string
	// sites returns the number of places the rewrite applies to; apply rewrites site i (or all when i < 0).
	sites func(p *Prog) int
	apply func(p *Prog, i int)
}

func copyOf(x *Node) *Node {
	return &Node{K: "lcomp", Names: []string{"e_"}, C: []*Node{{K: "name", S: "e_"}, x, nil}}
}

// exprNeutraliser builds a neutraliser that replaces matching expression nodes.
func exprNeutraliser(name string, match func(n *Node) bool, rewrite func(n *Node) *Node) neutraliser {
	find := func(p *Prog) []**Node {
		var out []**Node
		for _, s := range exprSlots(p) {
			if match(*s) {
				out = append(out, s)
			}
		}
		return out
	}
	return neutraliser{
		name:  name,
		sites: func(p *Prog) int { return len(find(p)) },
		apply: func(p *Prog, i int) {
			slots := find(p)
			// innermost first so that outer slots stay valid
			for k := len(slots) - 1; k >= 0; k-- {
				if i < 0 || i == k {
					*slots[k] = rewrite(*slots[k])
				}
			}
		},
	}
}

func allStmts(p *Prog) []*Node {
	var out []*Node
	var walk func(l []*Node)
	walk = func(l []*Node) {
		for _, s := range l {
			out = append(out, s)
			walk(s.Body)
			walk(s.Else)
		}
	}
	walk(p.Stmts)
	return out
}

func isCall(n *Node, fn string) bool { return n.K == "call" && n.S == fn }

var neutralisers = []neutraliser{
	exprNeutraliser("int-literal/0o-octal", func(n *Node) bool { return n.K == "int" && n.Oct },
		func(n *Node) *Node { return iLit(n.I) }),
	exprNeutraliser("chained-comparison", func(n *Node) bool { return n.K == "chaincmp" },
		func(n *Node) *Node {
			var out *Node
			for i, op := range n.Kw {
				c := &Node{K: "bin", S: op, C: []*Node{n.C[i].clone(), n.C[i+1].clone()}, Paren: true}
				if out == nil {
					out = c
				} else {
					out = &Node{K: "bin", S: "and", C: []*Node{out, c}, Paren: true}
				}
			}
			return out
		}),
	exprNeutraliser("adjacent-string-literals/postfix-applies-to-last-literal", func(n *Node) bool { return n.K == "strcat" },
		func(n *Node) *Node { return sLit(n.C[0].S + n.C[1].S) }),
	exprNeutraliser("%/negative-operand", func(n *Node) bool { return n.K == "bin" && n.S == "%" },
		func(n *Node) *Node {
			inner := &Node{K: "bin", S: "%", C: []*Node{n.C[0], n.C[1]}, Paren: true}
			sum := &Node{K: "bin", S: "+", C: []*Node{inner, n.C[1].clone()}, Paren: true}
			return &Node{K: "bin", S: "%", C: []*Node{sum, n.C[1].clone()}, Paren: true}
		}),
	exprNeutraliser("sorted/shares-storage-with-argument", func(n *Node) bool { return isCall(n, "sorted") && len(n.C) > 0 },
		func(n *Node) *Node { m := n.clone(); m.C[0] = copyOf(m.C[0]); return m }),
	exprNeutraliser("reversed/shares-storage-with-argument", func(n *Node) bool { return isCall(n, "reversed") && len(n.C) > 0 },
		func(n *Node) *Node { m := n.clone(); m.C[0] = copyOf(m.C[0]); return m }),
	exprNeutraliser("filter/empty-result-is-null", func(n *Node) bool { return isCall(n, "filter") },
		func(n *Node) *Node { return copyOf(n) }),
	exprNeutraliser("range/negative-step", func(n *Node) bool {
		return isCall(n, "range") && len(n.C) == 3 && n.C[2].K == "int" && n.C[2].I < 0 && n.C[0].K == "int" && n.C[1].K == "int"
	}, func(n *Node) *Node {
		l := &Node{K: "list"}
		for v := n.C[0].I; v > n.C[1].I && len(l.C) < 100; v += n.C[2].I {
			l.C = append(l.C, iLit(v))
		}
		return l
	}),
	exprNeutraliser("range/empty-range-is-truthy", func(n *Node) bool { return isCall(n, "range") },
		func(n *Node) *Node { return copyOf(n) }),
	exprNeutraliser("slice/list-slice-shares-storage", func(n *Node) bool { return n.K == "slice" },
		func(n *Node) *Node { return copyOf(n) }),
	exprNeutraliser("list-literal/constant-shared-between-evaluations", func(n *Node) bool { return n.K == "list" && len(n.C) > 0 },
		func(n *Node) *Node { return copyOf(n) }),
	{
		name: "+=/list-is-rebound-not-extended-in-place",
		sites: func(p *Prog) int {
			c := 0
			for _, s := range allStmts(p) {
				if s.K == "aug" || s.K == "iaug" {
					c++
				}
			}
			return c
		},
		apply: func(p *Prog, i int) {
			k := 0
			for _, s := range allStmts(p) {
				if s.K != "aug" && s.K != "iaug" {
					continue
				}
				if i < 0 || i == k {
					if s.K == "aug" {
						s.K = "assign"
						s.C = []*Node{{K: "bin", S: "+", C: []*Node{{K: "name", S: s.S}, s.C[0]}, Paren: true}}
					} else {
						s.K = "iset"
						cur := &Node{K: "idx", C: []*Node{{K: "name", S: s.S}, s.C[0].clone()}}
						s.C = []*Node{s.C[0], {K: "bin", S: "+", C: []*Node{cur, s.C[1]}, Paren: true}}
					}
				}
				k++
			}
		},
	},
	exprNeutraliser("+/list-concatenation-appends-into-shared-storage", func(n *Node) bool { return n.K == "bin" && n.S == "+" },
		func(n *Node) *Node { m := n.clone(); m.C[0] = copyOf(m.C[0]); return m }),
	lateN(exprNeutraliser("sorted/order-of-equal-keys-in-long-list", func(n *Node) bool {
		return isCall(n, "sorted") && len(n.C) > 0 && n.C[0].K == "list" && len(n.C[0].C) > 12
	}, func(n *Node) *Node { m := n.clone(); m.C[0].C = m.C[0].C[:12]; return m }), nil),
	lateN(exprNeutraliser("floordiv/large-int-loses-precision", func(n *Node) bool {
		return n.K == "int" && (n.I > 1<<52 || n.I < -(1<<52))
	}, func(n *Node) *Node { return iLit(n.I % 1000003) }), nil),
	lateN(exprNeutraliser("non-ascii-string", func(n *Node) bool { return n.K == "str" && strClass(n.S)[0] == 'U' },
		func(n *Node) *Node {
			out := []rune(n.S)
			for i, c := range out {
				if c > 127 {
					out[i] = 'z'
				}
			}
			return sLit(string(out))
		}), opsOf),
}

func lateN(n neutraliser, suffix func(p *Prog) string) neutraliser {
	n.late = true
	n.keySuffix = suffix
	return n
}

// opsOf names the operations (methods, builtins, subscripts) of a minimal program.
func opsOf(p *Prog) string {
	set := map[string]bool{}
	for _, s := range exprSlots(p) {
		switch n := *s; n.K {
		case "meth":
			set["."+n.S] = true
		case "call":
			if pyBuiltin[n.S] {
				set[n.S] = true
			}
		case "idx":
			set["index"] = true
		case "slice":
			set["slice"] = true
		case "bin":
			set[n.S] = true
		}
	}
	var l []string
	for k := range set {
		l = append(l, k)
	}
	return "/" + uniqJoin(l)
}

// variants lists the rewritten programs of one neutraliser: all sites at once, then each single site.
func variants(n neutraliser, p *Prog) []*Prog {
	k := n.sites(p)
	if k == 0 {
		return nil
	}
	q := p.clone()
	n.apply(q, -1)
	out := []*Prog{q}
	if k > 1 && k <= 6 {
		for i := 0; i < k; i++ {
			q := p.clone()
			n.apply(q, i)
			out = append(out, q)
		}
	}
	return out
}

// classify returns the name of the first neutraliser that makes the languages agree on p
// (applied to all its sites, or failing that to a single site), or "".
func (e *Engine) classify(p *Prog, route string, minimal bool) string {
	var all []*Prog
	type cand struct {
		name string
		vs   []*Prog
	}
	var cands []cand
	for _, n := range neutralisers {
		if n.late && !minimal {
			continue
		}
		vs := variants(n, p)
		if len(vs) == 0 {
			continue
		}
		name := n.name
		if n.keySuffix != nil {
			name += n.keySuffix(p)
		}
		cands = append(cands, cand{name, vs})
		all = append(all, vs...)
	}
	e.prefetch(all)
	for _, c := range cands {
		for _, q := range c.vs {
			if e.agrees(q, route) {
				return c.name
			}
		}
	}
	return ""
}

// parenthesised returns a copy with every operator explicitly parenthesised.
func parenthesised(p *Prog) *Prog {
	q := p.clone()
	for _, s := range exprSlots(q) {
		if (*s).K == "bin" || (*s).K == "un" {
			(*s).Paren = true
		}
	}
	return q
}

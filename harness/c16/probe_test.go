package c16

import (
	"fmt"
	"os"
	"sort"
	"strconv"
	"testing"
	"time"
)

func TestProbe(t *testing.T) {
	dir, _ := os.MkdirTemp("/tmp", "c16probe")
	defer os.RemoveAll(dir)
	ps, err := StartPy(dir)
	if err != nil {
		t.Fatal(err)
	}
	defer ps.Close()
	ae, err := NewAspEval(dir)
	if err != nil {
		t.Fatal(err)
	}
	e := &Engine{Py: ps, Asp: ae, ShrinkBudget: 600, MaxTargets: 3}
	N := 600
	if s := os.Getenv("PROBE_N"); s != "" {
		N, _ = strconv.Atoi(s)
	}
	base := 0
	if s := os.Getenv("PROBE_BASE"); s != "" {
		base, _ = strconv.Atoi(s)
	}
	keys := map[string]int{}
	ex := map[string]Finding{}
	stats := map[string]int{}
	start := time.Now()
	totalShrink := 0
	for i := 0; i < N; i++ {
		r := e.RunCase(i, int64(base+i))
		if !r.PyOK {
			stats["py-invalid"]++
			continue
		}
		stats["py-valid"]++
		if len(r.Findings) > 0 {
			stats["disagree"]++
		}
		for _, f := range r.Findings {
			keys[f.Key]++
			totalShrink += f.ShrinkEvals
			if _, ok := ex[f.Key]; !ok {
				ex[f.Key] = f
			}
		}
	}
	fmt.Println(time.Since(start), stats, "shrink evals", totalShrink, "py evals", ps.Evals, "asp evals", ae.Evals)
	var ks []string
	for k := range keys {
		ks = append(ks, k)
	}
	sort.Slice(ks, func(i, j int) bool { return keys[ks[i]] > keys[ks[j]] })
	for _, k := range ks {
		f := ex[k]
		fmt.Printf("%4d %-60s [%s] asp=%s py=%s\n        %s\n", keys[k], k, f.Route, f.AspValue, f.PyValue, oneLine(f.AspProgram))
	}
}

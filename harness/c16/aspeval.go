package c16

import (
	"fmt"
	"os"
	"path/filepath"
	"regexp"
	"strings"
	"testing/fstest"

	"github.com/thought-machine/please/src/core"
	"github.com/thought-machine/please/src/parse"

	"verifharness/iplib"
)

// An AspEval evaluates programs through Please's real parser and interpreter, in-process:
// route "build" parses the program as a package's BUILD file (parse.InitParser + state.Parser.ParseFile),
// route "sub" puts it into a .build_defs file that a BUILD file subinclude()s (this is the only route
// on which parser.optimise / interpreter.optimiseExpressions run). Values leave through json().
type AspEval struct {
	dir   string
	state *core.BuildState
	defs  *core.Package
	n     int
	Evals int
}

// NewAspEval prepares a scratch repository in dir and chdirs into it (once per process).
func NewAspEval(dir string) (*AspEval, error) {
	iplib.Quiet()
	if err := os.WriteFile(filepath.Join(dir, ".plzconfig"), []byte("[please]\nselfupdate = false\n"), 0o644); err != nil {
		return nil, err
	}
	if err := os.MkdirAll(filepath.Join(dir, "plz-out/gen/defs"), 0o755); err != nil {
		return nil, err
	}
	if err := os.Chdir(dir); err != nil {
		return nil, err
	}
	core.RepoRoot = dir
	a := &AspEval{dir: dir}
	a.reset()
	return a, nil
}

// reset drops the build state (the graph accumulates one package per evaluation).
func (a *AspEval) reset() {
	a.state = iplib.NewState()
	parse.InitParser(a.state)
	a.defs = core.NewPackage("defs")
	a.state.Graph.AddPackage(a.defs)
}

var posRe = regexp.MustCompile(`[A-Za-z0-9_./-]*(BUILD|\.build_defs):\d+:\d+:?`)

// errClass abstracts an interpreter error message to a class for the evidence.
func errClass(err error) string {
	s := err.Error()
	if i := strings.IndexByte(s, '\n'); i >= 0 {
		s = s[:i]
	}
	s = posRe.ReplaceAllString(s, "")
	s = regexp.MustCompile(`'[^']*'|"[^"]*"|-?\d+`).ReplaceAllString(s, "_")
	s = strings.TrimSpace(s)
	if len(s) > 70 {
		s = s[:70]
	}
	return s
}

// Eval evaluates the program on the given route and returns the exported JSON text.
func (a *AspEval) Eval(p *Prog, route string) (vals string, err error) {
	a.n++
	a.Evals++
	if a.n%400 == 0 {
		a.reset()
	}
	name := fmt.Sprintf("c%d", a.n)
	var src string
	if route == "sub" {
		defs := filepath.Join(a.dir, "plz-out/gen/defs", name+".build_defs")
		if err := os.WriteFile(defs, []byte(Render(p, asp, "C16_EXPORT")), 0o644); err != nil {
			return "", err
		}
		defer os.Remove(defs)
		t := core.NewBuildTarget(core.ParseBuildLabel("//defs:"+name, ""))
		t.AddOutput(name + ".build_defs")
		t.Visibility = []core.BuildLabel{core.WholeGraph[0]}
		t.SetState(core.Built)
		a.state.AddTarget(a.defs, t)
		src = "subinclude(\"//defs:" + name + "\")\ntext_file(name = \"v\", content = C16_EXPORT)\n"
	} else {
		src = Render(p, asp, "")
	}
	// the BUILD file itself is served from memory (ParseFile takes an fs.FS); subincluded files must be on disk
	fn := filepath.Join(name, "BUILD")
	mem := fstest.MapFS{fn: &fstest.MapFile{Data: []byte(src), Mode: 0o644}}
	pkg := core.NewPackage(name)
	pkg.Filename = fn
	if err := a.state.Parser.ParseFile(pkg, nil, nil, core.ParseModeNormal, mem, fn); err != nil {
		return "", err
	}
	t := pkg.Target("v")
	if t == nil {
		return "", fmt.Errorf("no export target")
	}
	return t.FileContent, nil
}

package c16

import (
	"bytes"
	"encoding/json"
	"fmt"
	"sort"
)

func parseJSON(s string) (map[string]any, error) {
	dec := json.NewDecoder(bytes.NewReader([]byte(s)))
	dec.UseNumber()
	var v map[string]any
	if err := dec.Decode(&v); err != nil {
		return nil, err
	}
	return v, nil
}

// jsonEqual compares parsed JSON values; numbers compare by their integer text.
func jsonEqual(a, b any) bool {
	switch x := a.(type) {
	case nil:
		return b == nil
	case bool:
		y, ok := b.(bool)
		return ok && x == y
	case json.Number:
		y, ok := b.(json.Number)
		return ok && x.String() == y.String()
	case string:
		y, ok := b.(string)
		return ok && x == y
	case []any:
		y, ok := b.([]any)
		if !ok || len(x) != len(y) {
			return false
		}
		for i := range x {
			if !jsonEqual(x[i], y[i]) {
				return false
			}
		}
		return true
	case map[string]any:
		y, ok := b.(map[string]any)
		if !ok || len(x) != len(y) {
			return false
		}
		for k, v := range x {
			w, present := y[k]
			if !present || !jsonEqual(v, w) {
				return false
			}
		}
		return true
	}
	return false
}

// A Diff is one exported global whose values differ.
type Diff struct {
	Name string `json:"name"`
	Asp  string `json:"asp"`
	Py   string `json:"python"`
}

// diffVals returns the globals on which the two JSON objects disagree (sorted by name).
func diffVals(aspJSON, pyJSON string) ([]Diff, error) {
	a, err := parseJSON(aspJSON)
	if err != nil {
		return nil, fmt.Errorf("asp export is not JSON: %w", err)
	}
	p, err := parseJSON(pyJSON)
	if err != nil {
		return nil, fmt.Errorf("python export is not JSON: %w", err)
	}
	var out []Diff
	for k, pv := range p {
		av, ok := a[k]
		if !ok {
			out = append(out, Diff{Name: k, Asp: "<missing>", Py: compact(pv)})
		} else if !jsonEqual(av, pv) {
			out = append(out, Diff{Name: k, Asp: compact(av), Py: compact(pv)})
		}
	}
	sort.Slice(out, func(i, j int) bool { return out[i].Name < out[j].Name })
	return out, nil
}

func compact(v any) string {
	b, _ := json.Marshal(v)
	if len(b) > 300 {
		return string(b[:300]) + "…"
	}
	return string(b)
}

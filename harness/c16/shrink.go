package c16

// The shrinker: greedy subtree deletion / replacement / canonicalisation of a disagreeing program.
// Every candidate is accepted only if the oracle still reports the disagreement, so no step needs
// to preserve types or meaning by construction.

// exprSlots returns the addresses of all expression child pointers of the program, outermost first.
func exprSlots(p *Prog) []**Node {
	var out []**Node
	var walkE func(pp **Node)
	walkE = func(pp **Node) {
		if *pp == nil {
			return
		}
		out = append(out, pp)
		n := *pp
		for i := range n.C {
			walkE(&n.C[i])
		}
	}
	var walkS func(l []*Node)
	walkS = func(l []*Node) {
		for _, s := range l {
			for i := range s.C {
				walkE(&s.C[i])
			}
			walkS(s.Body)
			walkS(s.Else)
		}
	}
	walkS(p.Stmts)
	return out
}

// stmtLists returns the addresses of all statement lists (top level, bodies, else branches).
func stmtLists(p *Prog) []*[]*Node {
	out := []*[]*Node{&p.Stmts}
	var walk func(l []*Node)
	walk = func(l []*Node) {
		for _, s := range l {
			if s.K == "if" || s.K == "for" || s.K == "def" {
				out = append(out, &s.Body)
				walk(s.Body)
				if s.K == "if" {
					out = append(out, &s.Else)
					walk(s.Else)
				}
			}
		}
	}
	walk(p.Stmts)
	return out
}

func isExprKind(k string) bool {
	switch k {
	case "assign", "aug", "iset", "iaug", "unpack", "expr", "if", "for", "def", "ret", "break", "continue", "pass":
		return false
	}
	return true
}

// names collects every identifier occurring in a statement (reads, writes, callee names).
func stmtNames(s *Node, into map[string]bool) {
	var walkE func(n *Node)
	walkE = func(n *Node) {
		if n == nil {
			return
		}
		if n.K == "name" || n.K == "call" {
			into[n.S] = true
		}
		if n.K == "fstr" {
			for i, p := range n.Parts {
				if i%2 == 1 {
					into[p] = true
				}
			}
		}
		for _, c := range n.C {
			walkE(c)
		}
	}
	var walkS func(s *Node)
	walkS = func(s *Node) {
		switch s.K {
		case "assign", "aug", "iset", "iaug", "def":
			into[s.S] = true
		}
		if s.K != "def" {
			for _, n := range s.Names {
				into[n] = true
			}
		}
		for _, c := range s.C {
			walkE(c)
		}
		for _, b := range s.Body {
			walkS(b)
		}
		for _, b := range s.Else {
			walkS(b)
		}
	}
	walkS(s)
}

// staticSlice keeps the top-level statements connected (through shared identifiers) to target.
func staticSlice(p *Prog, target string) *Prog {
	need := map[string]bool{target: true}
	sets := make([]map[string]bool, len(p.Stmts))
	for i, s := range p.Stmts {
		sets[i] = map[string]bool{}
		stmtNames(s, sets[i])
	}
	for changed := true; changed; {
		changed = false
		for _, set := range sets {
			hit := false
			for n := range set {
				if need[n] {
					hit = true
					break
				}
			}
			if hit {
				for n := range set {
					if !need[n] && !pyBuiltin[n] {
						need[n] = true
						changed = true
					}
				}
			}
		}
	}
	q := &Prog{Export: []string{target}}
	for i, s := range p.Stmts {
		for n := range sets[i] {
			if need[n] {
				q.Stmts = append(q.Stmts, s.clone())
				break
			}
		}
	}
	return q
}

var pyBuiltin = map[string]bool{"len": true, "sorted": true, "reversed": true, "range": true, "enumerate": true, "zip": true, "any": true, "all": true,
	"min": true, "max": true, "map": true, "filter": true, "reduce": true, "str": true, "int": true, "bool": true, "chr": true, "ord": true,
	"isinstance": true, "list": true, "dict": true, "x": true, "y": true, "s": true, "k": true, "v": true}

var opClasses = [][]string{{"+", "-"}, {"*", "//", "%"}, {"<", "<=", ">", ">=", "==", "!="}, {"and", "or"}, {"in", "not in"}, {"is", "is not"}}

func intRank(v int64) int {
	order := []int64{0, 1, 2, 3, -1, -2, 5, 7, -7, 10}
	for i, x := range order {
		if x == v {
			return i
		}
	}
	return 100
}

var strCanon = []string{"", "a", "ab", "b", "a b", "a,b", "é", "aé"}

func strRank(s string) int {
	for i, x := range strCanon {
		if x == s {
			return i
		}
	}
	return 100
}

// literalCandidates proposes simpler replacements for any expression node.
func literalCandidates(n *Node) []*Node {
	var out []*Node
	switch n.K {
	case "int":
		for _, v := range []int64{0, 1, 2, 3, -1, -2, 5, 7, -7, 10} {
			if intRank(v) < intRank(n.I) || n.Oct {
				out = append(out, iLit(v))
			}
		}
		if n.Oct {
			out = append(out, &Node{K: "int", I: 8, Oct: true})
		}
	case "str":
		for _, s := range strCanon {
			if strRank(s) < strRank(n.S) {
				out = append(out, sLit(s))
			}
		}
	case "bool", "none":
	default:
		out = append(out, iLit(0), iLit(1), iLit(-1), iLit(2), sLit(""), sLit("a"), &Node{K: "list"}, &Node{K: "list", C: []*Node{iLit(0)}},
			&Node{K: "list", C: []*Node{iLit(1), iLit(0)}}, &Node{K: "list", C: []*Node{iLit(0), iLit(1)}},
			&Node{K: "bool", I: 1}, &Node{K: "bool"}, &Node{K: "dict"})
	}
	return out
}

type shrinker struct {
	test   func(*Prog) bool // true = still a valid, disagreeing program
	budget int
	evals  int
	cache  map[string]bool // result per candidate text
	// prefetch (optional) lets the oracle evaluate a group of upcoming candidates in one round trip
	prefetch func([]*Prog)
}

// hint announces candidates that are about to be tried in this order.
func (s *shrinker) hint(cur *Prog, qs []*Prog) {
	if s.prefetch == nil || len(qs) < 2 {
		return
	}
	var keep []*Prog
	for _, q := range qs {
		if cur == nil || less(measure(q), measure(cur)) {
			if _, ok := s.cache[Render(q, asp, "")]; !ok {
				keep = append(keep, q)
			}
		}
	}
	if len(keep) > 1 {
		s.prefetch(keep)
	}
}

// measure is the well-founded order that every accepted step must strictly decrease:
// (compound constructs, rendered length, sum of literal / operator / statement-kind ranks).
func measure(p *Prog) [3]int {
	var m [3]int
	var walkS func(l []*Node)
	walkS = func(l []*Node) {
		for _, st := range l {
			switch st.K {
			case "for", "if", "def":
				m[0] += 2
			case "aug", "iaug", "expr", "unpack":
				m[2] += 50
			}
			walkS(st.Body)
			walkS(st.Else)
		}
	}
	walkS(p.Stmts)
	for _, slot := range exprSlots(p) {
		n := *slot
		switch n.K {
		case "lcomp", "lcomp2", "dcomp", "lambda":
			m[0]++
		case "int":
			m[2] += intRank(n.I)
			if n.Oct {
				m[2] += 200
			}
		case "str":
			m[2] += strRank(n.S)
		case "bin":
			for _, cl := range opClasses {
				for k, op := range cl {
					if op == n.S {
						m[2] += k
					}
				}
			}
		case "chaincmp":
			for _, o := range n.Kw {
				for k, op := range opClasses[2] {
					if op == o {
						m[2] += k
					}
				}
			}
		}
	}
	q := *p
	q.Export = nil
	m[1] = len(Render(&q, py, ""))
	return m
}

func less(a, b [3]int) bool {
	for i := range a {
		if a[i] != b[i] {
			return a[i] < b[i]
		}
	}
	return false
}

// try tests a candidate that must be strictly simpler than cur.
func (s *shrinker) try(q, cur *Prog) bool {
	if cur != nil && !less(measure(q), measure(cur)) {
		return false
	}
	txt := Render(q, asp, "")
	if r, ok := s.cache[txt]; ok {
		return r
	}
	if s.evals >= s.budget {
		return false
	}
	s.evals++
	r := s.test(q)
	s.cache[txt] = r
	return r
}

// Shrink minimises p (which must satisfy test) and returns the smallest program found together with
// the (possibly changed) observed variable.
func Shrink(p *Prog, target string, budget int, prefetch func([]*Prog), test func(*Prog) bool) (*Prog, string, int) {
	s := &shrinker{test: test, budget: budget, cache: map[string]bool{}, prefetch: prefetch}
	cur := p.clone()
	cur.Export = []string{target}
	if q := staticSlice(cur, target); len(q.Stmts) < len(cur.Stmts) && s.try(q, cur) {
		cur = q
	}
	for round := 0; round < 8 && s.evals < s.budget; round++ {
		before := Render(cur, asp, "")
		cur = s.deleteStmts(cur)
		cur = s.flattenStmts(cur)
		cur = s.retargetExport(cur)
		cur = s.retargetExpr(cur)
		cur = s.inlineVars(cur)
		cur = s.hoistExprs(cur)
		cur = s.deleteChildren(cur)
		cur = s.dropParams(cur)
		cur = s.canonStmtKinds(cur)
		cur = s.canonLiterals(cur)
		cur = s.canonOps(cur)
		if Render(cur, asp, "") == before {
			break
		}
	}
	cur = s.addParens(cur)
	return cur, cur.Export[0], s.evals
}

func topAssigned(p *Prog) []string {
	var out []string
	seen := map[string]bool{}
	for _, st := range p.Stmts {
		var ns []string
		switch st.K {
		case "assign", "aug", "iset", "iaug":
			ns = []string{st.S}
		case "unpack":
			ns = st.Names
		}
		for _, n := range ns {
			if !seen[n] {
				seen[n] = true
				out = append(out, n)
			}
		}
	}
	return out
}

// retargetExport observes the earliest top-level variable on which the languages still disagree.
func (s *shrinker) retargetExport(cur *Prog) *Prog {
	for _, n := range topAssigned(cur) {
		if n == cur.Export[0] {
			return cur
		}
		q := cur.clone()
		q.Export = []string{n}
		if s.try(q, nil) {
			return q
		}
	}
	return cur
}

func hasStmtKind(l []*Node, k string) bool {
	for _, st := range l {
		if st.K == k || hasStmtKind(st.Body, k) || hasStmtKind(st.Else, k) {
			return true
		}
	}
	return false
}

// retargetExpr tries to reduce the program to "target = <sub-expression>" (alone, with the function
// definitions, or after the statements that precede it).
func (s *shrinker) retargetExpr(cur *Prog) *Prog {
	target := cur.Export[0]
	for si := 0; si < len(cur.Stmts); si++ {
		st := cur.Stmts[si]
		if st.K == "def" {
			continue
		}
		sub := &Prog{Stmts: []*Node{st}}
		for _, slot := range exprSlots(sub) {
			e := *slot
			switch e.K {
			case "name", "int", "str", "bool", "none", "lambda":
				continue
			}
			if st.K == "assign" && st.S == target && e == st.C[0] && si == len(cur.Stmts)-1 {
				continue // that is the program we already have
			}
			asg := &Node{K: "assign", S: target, C: []*Node{e.clone()}}
			var defs, prefix []*Node
			for _, d := range cur.Stmts {
				if d.K == "def" {
					defs = append(defs, d.clone())
				}
			}
			prefix = cloneList(cur.Stmts[:si])
			for _, cand := range [][]*Node{{asg}, append(defs, asg), append(prefix, asg)} {
				q := &Prog{Stmts: cloneList(cand), Export: []string{target}}
				if s.try(q, cur) {
					return s.retargetExpr(q)
				}
			}
		}
	}
	return cur
}

// dropParams removes a function parameter together with the corresponding call arguments.
func (s *shrinker) dropParams(cur *Prog) *Prog {
	for si := 0; si < len(cur.Stmts); si++ {
		if cur.Stmts[si].K != "def" {
			continue
		}
		for j := len(cur.Stmts[si].Names) - 1; j >= 0; j-- {
			q := cur.clone()
			d := q.Stmts[si]
			pn := d.Names[j]
			d.Names = append(append([]string(nil), d.Names[:j]...), d.Names[j+1:]...)
			if j < len(d.C) {
				d.C = append(append([]*Node(nil), d.C[:j]...), d.C[j+1:]...)
			}
			for _, slot := range exprSlots(q) {
				c := *slot
				if c.K != "call" || c.S != d.S {
					continue
				}
				for a := len(c.C) - 1; a >= 0; a-- {
					kw := ""
					if a < len(c.Kw) {
						kw = c.Kw[a]
					}
					if kw == pn || (kw == "" && a == j) {
						c.C = append(append([]*Node(nil), c.C[:a]...), c.C[a+1:]...)
						if a < len(c.Kw) {
							c.Kw = append(append([]string(nil), c.Kw[:a]...), c.Kw[a+1:]...)
						}
						break
					}
				}
			}
			if s.try(q, cur) {
				cur = q
			}
		}
	}
	return cur
}

// canonStmtKinds: x += e -> x = e, x[i] += e -> x[i] = e, expression statement / loop / if header ->
// assignment of the header expression to a scratch variable, one unrolled loop iteration.
func (s *shrinker) canonStmtKinds(cur *Prog) *Prog {
	for li := 0; li < len(stmtLists(cur)); li++ {
		for i := 0; i < len(*stmtLists(cur)[li]); i++ {
			st := (*stmtLists(cur)[li])[i]
			var repls [][]*Node
			switch st.K {
			case "aug":
				repls = append(repls, []*Node{{K: "assign", S: st.S, C: cloneList(st.C)}})
			case "iaug":
				repls = append(repls, []*Node{{K: "iset", S: st.S, C: cloneList(st.C)}})
			case "expr", "unpack":
				repls = append(repls, []*Node{{K: "assign", S: "w", C: cloneList(st.C)}})
			case "if":
				repls = append(repls, []*Node{{K: "assign", S: "w", C: cloneList(st.C)}})
			case "for":
				repls = append(repls, []*Node{{K: "assign", S: "w", C: cloneList(st.C)}})
				if len(st.Names) == 1 && st.C[0].K == "list" && len(st.C[0].C) > 0 && !hasStmtKind(st.Body, "break") && !hasStmtKind(st.Body, "continue") {
					repls = append(repls, substStmts(st.Body, st.Names[0], st.C[0].C[0]))
				}
				if len(st.Names) == 1 && !hasStmtKind(st.Body, "break") && !hasStmtKind(st.Body, "continue") {
					first := &Node{K: "assign", S: st.Names[0], C: []*Node{{K: "idx", C: []*Node{st.C[0].clone(), iLit(0)}}}}
					repls = append(repls, append([]*Node{first}, cloneList(st.Body)...))
				}
			}
			for _, repl := range repls {
				q := cur.clone()
				l := stmtLists(q)[li]
				nl := append([]*Node(nil), (*l)[:i]...)
				nl = append(nl, repl...)
				nl = append(nl, (*l)[i+1:]...)
				*l = nl
				if s.try(q, cur) {
					cur = q
					break
				}
			}
		}
	}
	return cur
}

func (s *shrinker) deleteStmts(cur *Prog) *Prog {
	// chunks first (halves), then single statements, last to first
	for li := 0; li < len(stmtLists(cur)); li++ {
		n := len(*stmtLists(cur)[li])
		var qs []*Prog
		for size := n / 2; size >= 1; size /= 2 {
			for start := n - size; start >= 0; start -= size {
				q := cur.clone()
				l := stmtLists(q)[li]
				*l = append(append([]*Node(nil), (*l)[:start]...), (*l)[start+size:]...)
				qs = append(qs, q)
			}
		}
		s.hint(cur, qs)
		for size := n / 2; size >= 1; size /= 2 {
			for start := n - size; start >= 0; start -= size {
				q := cur.clone()
				l := stmtLists(q)[li]
				if start+size > len(*l) {
					continue
				}
				*l = append(append([]*Node(nil), (*l)[:start]...), (*l)[start+size:]...)
				if s.try(q, cur) {
					cur = q
					n = len(*stmtLists(cur)[li])
				}
			}
		}
	}
	return cur
}

// flattenStmts replaces an if by one of its branches and unwraps trivial structure.
func (s *shrinker) flattenStmts(cur *Prog) *Prog {
	for li := 0; li < len(stmtLists(cur)); li++ {
		for i := 0; i < len(*stmtLists(cur)[li]); i++ {
			st := (*stmtLists(cur)[li])[i]
			if st.K != "if" {
				continue
			}
			for _, branch := range []int{0, 1} {
				q := cur.clone()
				l := stmtLists(q)[li]
				st := (*l)[i]
				repl := st.Body
				if branch == 1 {
					repl = st.Else
				}
				nl := append([]*Node(nil), (*l)[:i]...)
				nl = append(nl, repl...)
				nl = append(nl, (*l)[i+1:]...)
				*l = nl
				if s.try(q, cur) {
					cur = q
					i--
					break
				}
			}
		}
	}
	return cur
}

func countAssign(p *Prog, n string) int {
	c := 0
	var walk func(l []*Node)
	walk = func(l []*Node) {
		for _, s := range l {
			switch s.K {
			case "assign", "aug", "iset", "iaug":
				if s.S == n {
					c++
				}
			}
			for _, x := range s.Names {
				if x == n && s.K != "def" {
					c++
				}
			}
			walk(s.Body)
			walk(s.Else)
		}
	}
	walk(p.Stmts)
	return c
}

// inlineVars substitutes the right-hand side of a top-level assignment into the uses of the
// variable up to (and including the right-hand side of) its next top-level assignment.
func (s *shrinker) inlineVars(cur *Prog) *Prog {
	target := cur.Export[0]
	for i := 0; i < len(cur.Stmts); i++ {
		st := cur.Stmts[i]
		if st.K != "assign" {
			continue
		}
		next := -1
		for j := i + 1; j < len(cur.Stmts); j++ {
			if cur.Stmts[j].K == "assign" && cur.Stmts[j].S == st.S {
				next = j
				break
			}
		}
		if next < 0 && st.S == target {
			continue
		}
		q := cur.clone()
		rhs := q.Stmts[i].C[0]
		end := len(q.Stmts)
		if next >= 0 {
			end = next + 1
		}
		mid := substStmts(q.Stmts[i+1:end], st.S, rhs)
		if next >= 0 {
			mid[len(mid)-1].S = st.S // the reassignment's own target is not a use
		}
		nl := append([]*Node(nil), q.Stmts[:i]...)
		nl = append(nl, mid...)
		nl = append(nl, q.Stmts[end:]...)
		q.Stmts = nl
		if s.try(q, cur) {
			cur = q
			i--
		}
	}
	return cur
}

// substExpr returns a copy of n with every occurrence of the variable replaced by repl.
func substExpr(n *Node, v string, repl *Node) *Node {
	if n == nil {
		return nil
	}
	if n.K == "name" && n.S == v {
		r := repl.clone()
		if r.K == "bin" || r.K == "un" || r.K == "cond" {
			r.Paren = true
		}
		return r
	}
	m := n.clone()
	for i, c := range m.C {
		m.C[i] = substExpr(c, v, repl)
	}
	return m
}

func substStmts(l []*Node, v string, repl *Node) []*Node {
	out := make([]*Node, len(l))
	for i, st := range l {
		m := st.clone()
		for j, c := range m.C {
			m.C[j] = substExpr(c, v, repl)
		}
		m.Body = substStmts(st.Body, v, repl)
		m.Else = substStmts(st.Else, v, repl)
		out[i] = m
	}
	return out
}

// betaCandidates instantiates a comprehension / map() over a literal with its first element.
func betaCandidates(n *Node) []*Node {
	var out []*Node
	switch {
	case n.K == "lcomp" && len(n.Names) == 1 && n.C[1] != nil && n.C[1].K == "list" && len(n.C[1].C) > 0:
		out = append(out, &Node{K: "list", C: []*Node{substExpr(n.C[0], n.Names[0], n.C[1].C[0])}})
	case n.K == "call" && n.S == "map" && len(n.C) == 2 && n.C[0].K == "lambda" && len(n.C[0].Names) == 1 && n.C[1].K == "list" && len(n.C[1].C) > 0:
		out = append(out, &Node{K: "list", C: []*Node{substExpr(n.C[0].C[0], n.C[0].Names[0], n.C[1].C[0])}})
	case n.K == "fstr":
		lit := ""
		for i, p := range n.Parts {
			if i%2 == 0 {
				lit += p
			} else {
				lit += "a"
			}
		}
		out = append(out, sLit(lit))
	case n.K == "call" && len(n.C) >= 2 && n.S != "map":
		// sorted/min/max/filter/reduce with a one-argument lambda over a literal: the lambda body on an element
		var lam, lst *Node
		for _, c := range n.C {
			if c != nil && c.K == "lambda" && len(c.Names) == 1 {
				lam = c
			} else if c != nil && c.K == "list" && len(c.C) > 0 {
				lst = c
			}
		}
		if lam != nil && lst != nil {
			for i, e := range lst.C {
				if i < 3 {
					out = append(out, substExpr(lam.C[0], lam.Names[0], e))
				}
			}
		}
	case n.K == "dcomp" && len(n.Names) == 1 && n.C[2] != nil && n.C[2].K == "list" && len(n.C[2].C) > 0:
		e := n.C[2].C[0]
		out = append(out, &Node{K: "dict", C: []*Node{substExpr(n.C[0], n.Names[0], e), substExpr(n.C[1], n.Names[0], e)}})
	case n.K == "dcomp" && len(n.Names) == 2 && n.C[2] != nil && n.C[2].K == "meth" && n.C[2].S == "items" && n.C[2].C[0].K == "dict" && len(n.C[2].C[0].C) >= 2:
		k, v := n.C[2].C[0].C[0], n.C[2].C[0].C[1]
		key := substExpr(substExpr(n.C[0], n.Names[0], k), n.Names[1], v)
		val := substExpr(substExpr(n.C[1], n.Names[0], k), n.Names[1], v)
		out = append(out, &Node{K: "dict", C: []*Node{key, val}})
	}
	return out
}

// hoistExprs replaces an expression by one of its sub-expressions or by a canonical literal.
func (s *shrinker) hoistExprs(cur *Prog) *Prog {
	for i := 0; i < len(exprSlots(cur)); i++ {
		n := *exprSlots(cur)[i]
		if n.K == "lambda" {
			continue
		}
		var cands []*Node
		for _, c := range n.C {
			if c != nil && c.K != "lambda" {
				cands = append(cands, c)
				for _, cc := range c.C { // grandchildren: lets x.m(a)[0] collapse in one step
					if cc != nil && cc.K != "lambda" {
						cands = append(cands, cc)
					}
				}
			}
		}
		cands = append(betaCandidates(n), cands...)
		if n.K != "int" && n.K != "str" {
			cands = append(cands, literalCandidates(n)...)
		}
		if n.K == "list" && len(n.C) > 0 {
			cands = append(cands, &Node{K: "list", C: []*Node{iLit(0)}}, &Node{K: "list", C: []*Node{iLit(1), iLit(0)}}, &Node{K: "list", C: []*Node{iLit(0), iLit(1)}})
		}
		qs := make([]*Prog, len(cands))
		for j, c := range cands {
			qs[j] = cur.clone()
			*exprSlots(qs[j])[i] = c.clone()
		}
		s.hint(cur, qs)
		for _, q := range qs {
			if s.try(q, cur) {
				cur = q
				i--
				break
			}
		}
	}
	return cur
}

// deleteChildren removes list elements, dict pairs, call arguments, format parts.
func (s *shrinker) deleteChildren(cur *Prog) *Prog {
	for i := 0; i < len(exprSlots(cur)); i++ {
		n := *exprSlots(cur)[i]
		if n.K == "slice" {
			for _, j := range []int{1, 2} {
				if n.C[j] != nil {
					q := cur.clone()
					(*exprSlots(q)[i]).C[j] = nil
					if s.try(q, cur) {
						cur = q
						n = *exprSlots(cur)[i]
					}
				}
			}
			continue
		}
		switch n.K {
		case "list", "tuple", "call", "meth", "dict", "fstr":
		default:
			continue
		}
		if n.K == "list" && len(n.C) >= 2 {
			// ascending order of the literal is canonical (lets sorted(reverse=True) shrink to sorted())
			q := cur.clone()
			m := *exprSlots(q)[i]
			for a, b := 0, len(m.C)-1; a < b; a, b = a+1, b-1 {
				m.C[a], m.C[b] = m.C[b], m.C[a]
			}
			if s.try(q, cur) {
				cur = q
				n = *exprSlots(cur)[i]
			}
		}
		step, lo := 1, 0
		if n.K == "dict" {
			step = 2
		}
		if n.K == "meth" {
			lo = 1
		}
		if n.K == "fstr" {
			for j := len(n.Parts) - 2; j >= 1; j -= 2 {
				q := cur.clone()
				m := *exprSlots(q)[i]
				m.Parts = append(append([]string(nil), m.Parts[:j]...), m.Parts[j+2:]...)
				if s.try(q, cur) {
					cur = q
					n = *exprSlots(cur)[i]
				}
			}
			continue
		}
		for j := len(n.C) - step; j >= lo; j -= step {
			q := cur.clone()
			m := *exprSlots(q)[i]
			m.C = append(append([]*Node(nil), m.C[:j]...), m.C[j+step:]...)
			if len(m.Kw) > 0 {
				k := j - lo
				if k < len(m.Kw) {
					m.Kw = append(append([]string(nil), m.Kw[:k]...), m.Kw[k+1:]...)
				}
			}
			if s.try(q, cur) {
				cur = q
				n = *exprSlots(cur)[i]
			}
		}
	}
	return cur
}

func (s *shrinker) canonLiterals(cur *Prog) *Prog {
	for i := 0; i < len(exprSlots(cur)); i++ {
		n := *exprSlots(cur)[i]
		if n.K != "int" && n.K != "str" {
			continue
		}
		var qs []*Prog
		for _, c := range literalCandidates(n) {
			q := cur.clone()
			*exprSlots(q)[i] = c
			qs = append(qs, q)
		}
		s.hint(cur, qs)
		for _, q := range qs {
			if s.try(q, cur) {
				cur = q
				break
			}
		}
	}
	return cur
}

func (s *shrinker) canonOps(cur *Prog) *Prog {
	for i := 0; i < len(exprSlots(cur)); i++ {
		n := *exprSlots(cur)[i]
		if n.K == "chaincmp" {
			for k := range n.Kw {
				for _, op := range opClasses[2] {
					if op == n.Kw[k] {
						break
					}
					q := cur.clone()
					(*exprSlots(q)[i]).Kw[k] = op
					if s.try(q, cur) {
						cur = q
						n = *exprSlots(cur)[i]
						break
					}
				}
			}
			continue
		}
		if n.K != "bin" {
			continue
		}
		for _, cl := range opClasses {
			idx := -1
			for k, op := range cl {
				if op == n.S {
					idx = k
				}
			}
			for k := 0; k < idx; k++ {
				q := cur.clone()
				(*exprSlots(q)[i]).S = cl[k]
				if s.try(q, cur) {
					cur = q
					break
				}
			}
		}
	}
	return cur
}

// addParens makes operator grouping explicit wherever the disagreement survives it, so that what
// remains unparenthesised is exactly what needs the languages' own precedence rules to disagree.
func (s *shrinker) addParens(cur *Prog) *Prog {
	for i := 0; i < len(exprSlots(cur)); i++ {
		n := *exprSlots(cur)[i]
		if (n.K == "bin" || n.K == "un") && !n.Paren {
			q := cur.clone()
			(*exprSlots(q)[i]).Paren = true
			if s.try(q, nil) {
				cur = q
			}
		}
	}
	return cur
}

package c16

import (
	"bufio"
	"encoding/json"
	"fmt"
	"io"
	"os"
	"os/exec"
	"path/filepath"
)

// pyServerSrc is the CPython side of the oracle: it evaluates one program per request line in a
// fresh namespace containing the asp-only spellings (the "prelude"), and reports the final values
// of the requested globals as JSON. A program is reported "out of subset" (ok=false) when CPython
// raises, or when any intermediate arithmetic result leaves the documented 64-bit range / becomes a
// float / grows unreasonably (checked by wrapping every operator result with _chk through the ast
// module; the wrapping does not change any value).
const pyServerSrc = `
import ast, json, sys, functools, signal, resource, builtins, warnings
warnings.simplefilter("ignore")

LIM = 2 ** 62

class OutOfSubset(Exception):
    pass

def _chk(v):
    t = type(v)
    if t is int:
        if v > LIM or v < -LIM:
            raise OutOfSubset("int out of range")
    elif t is float or t is complex:
        raise OutOfSubset("float")
    elif t is str or t is list or t is tuple:
        if len(v) > 5000:
            raise OutOfSubset("too long")
    return v

class Instr(ast.NodeTransformer):
    def wrap(self, node):
        return ast.copy_location(ast.Call(func=ast.Name(id="_chk", ctx=ast.Load()), args=[node], keywords=[]), node)
    def visit_BinOp(self, node):
        self.generic_visit(node)
        if isinstance(node.op, ast.Div):
            raise OutOfSubset("true division")
        return self.wrap(node)
    def visit_UnaryOp(self, node):
        self.generic_visit(node)
        if isinstance(node.op, ast.USub):
            return self.wrap(node)
        return node
    def visit_AugAssign(self, node):
        self.generic_visit(node)
        t = node.target
        if isinstance(t, ast.Name):
            load = ast.Name(id=t.id, ctx=ast.Load())
        else:
            load = ast.Subscript(value=t.value, slice=t.slice, ctx=ast.Load())
        chk = ast.Expr(value=ast.Call(func=ast.Name(id="_chk", ctx=ast.Load()), args=[load], keywords=[]))
        return [node, ast.copy_location(chk, node)]

RISK = []
_range = builtins.range
def p_range(start, stop=None, step=1):
    r = _range(start, stop, step) if stop is not None else _range(start)
    if stop is not None and step < 0 and start < stop:
        # asp's range iterates "while i < stop: i += step": this never terminates. The case cannot
        # produce an asp value (vacuous for C16); the harness must not run it in-process.
        RISK.append("range(start<stop, step<0)")
    if len(r) > 5000:
        raise OutOfSubset("range too long")
    return list(r)                      # lexicon: "returns a list of integers"

def p_reversed(seq):
    if not isinstance(seq, list): raise TypeError("asp reverses lists only")
    return list(reversed(seq))          # "returns a copy of the given list ... in reverse order"
def p_sorted(seq, key=None, reverse=False):
    if not isinstance(seq, list): raise TypeError("asp sorts lists only")
    return sorted(seq, key=key, reverse=reverse)
def p_map(f, seq): return [f(x) for x in seq]
def p_filter(f, seq): return [x for x in seq if f(x)]
def p_zip(*seqs):
    return [list(t) for t in zip(*seqs)]
def p_enumerate(seq): return [[i, x] for i, x in enumerate(seq)]
def p_reduce(f, seq, initializer=None):
    if initializer is None:
        return functools.reduce(f, seq)
    return functools.reduce(f, seq, initializer)
def p_min(seq, key=None): return min(seq, key=key)
def p_max(seq, key=None): return max(seq, key=key)
def p_any(seq): return any(seq)
def p_all(seq): return all(seq)
def _keys(d): return sorted(d.keys())                  # language.html: "always consistently ordered"
def _values(d): return [d[k] for k in sorted(d.keys())]
def _items(d): return [[k, d[k]] for k in sorted(d.keys())]

PRELUDE = {
    "_chk": _chk, "range": p_range, "reversed": p_reversed, "sorted": p_sorted, "map": p_map,
    "filter": p_filter, "zip": p_zip, "enumerate": p_enumerate, "reduce": p_reduce, "min": p_min,
    "max": p_max, "any": p_any, "all": p_all, "_keys": _keys, "_values": _values, "_items": _items,
}

def check_value(v, depth=0):
    if depth > 20: raise OutOfSubset("too deep")
    if v is None or v is True or v is False: return
    t = type(v)
    if t is int: _chk(v)
    elif t is str:
        _chk(v)
        v.encode("utf-8")              # lone surrogates are not representable
    elif t is list or t is tuple:
        _chk(v)
        for x in v: check_value(x, depth + 1)
    elif t is dict:
        for k, x in v.items():
            if type(k) is not str: raise OutOfSubset("non-string dict key")
            check_value(x, depth + 1)
    else:
        raise OutOfSubset("unsupported value type " + t.__name__)

def on_alarm(sig, frm):
    raise OutOfSubset("timeout")

def r_range(start, stop=None, step=1):
    # CPython's own range object (lazy, not a list): see evaluate()
    r = _range(start, stop, step) if stop is not None else _range(start)
    if len(r) > 5000:
        raise OutOfSubset("range too long")
    return r

PRELUDE_REAL_RANGE = dict(PRELUDE)
PRELUDE_REAL_RANGE["range"] = r_range

def unrange(v):
    if type(v) is _range: return list(v)
    if type(v) is list or type(v) is tuple: return [unrange(x) for x in v]
    if type(v) is dict: return {k: unrange(x) for k, x in v.items()}
    return v

def run(code, prelude, names):
    g = dict(prelude)
    signal.setitimer(signal.ITIMER_REAL, 20.0)
    try:
        exec(code, g)
    finally:
        signal.setitimer(signal.ITIMER_REAL, 0)
    out = {}
    for n in names:
        v = unrange(g[n])
        check_value(v)
        out[n] = v
    return json.dumps(out, ensure_ascii=True)

def evaluate(req):
    tree = ast.parse(req["src"])
    tree = Instr().visit(tree)
    ast.fix_missing_locations(tree)
    code = compile(tree, "<prog>", "exec")
    del RISK[:]
    res = run(code, PRELUDE, req["names"])
    if "range" in req["src"]:
        # The lexicon says range() "returns a list of integers"; asp actually returns a lazy range
        # object like CPython 3 does. Only programs whose values do not depend on which of the two
        # readings is taken are comparison points.
        try:
            other = run(code, PRELUDE_REAL_RANGE, req["names"])
        except OutOfSubset:
            raise
        except Exception as e:
            raise OutOfSubset("range: list/range-object reading differ (" + type(e).__name__ + ")")
        if other != res:
            raise OutOfSubset("range: list/range-object reading differ")
    return res

def main():
    resource.setrlimit(resource.RLIMIT_AS, (2 << 30, 2 << 30))
    signal.signal(signal.SIGALRM, on_alarm)
    sys.setrecursionlimit(400)
    for line in sys.stdin:
        out = []
        for req in json.loads(line):          # one request line carries a batch of programs
            try:
                res = {"ok": True, "vals": evaluate(req), "risk": ";".join(RISK)}
            except BaseException as e:
                if isinstance(e, (KeyboardInterrupt, SystemExit)): raise
                res = {"ok": False, "err": type(e).__name__ + ": " + str(e)[:200]}
            out.append(res)
        sys.stdout.write(json.dumps(out) + "\n")
        sys.stdout.flush()

main()
`

// A PyResult is CPython's verdict on one program.
type PyResult struct {
	OK   bool   `json:"ok"`
	Vals string `json:"vals"` // JSON object text
	Err  string `json:"err"`
	Risk string `json:"risk"` // non-empty: evaluating this program in asp is known not to terminate
}

// A PyServer is a persistent python3 process evaluating programs one at a time.
type PyServer struct {
	cmd   *exec.Cmd
	in    io.WriteCloser
	out   *bufio.Reader
	Evals int
	Trips int
}

// StartPy starts the python oracle; the script is written to dir.
func StartPy(dir string) (*PyServer, error) {
	script := filepath.Join(dir, "c16_oracle.py")
	if err := os.WriteFile(script, []byte(pyServerSrc), 0o644); err != nil {
		return nil, err
	}
	cmd := exec.Command("python3", "-S", "-B", script)
	cmd.Env = []string{"PATH=/usr/local/bin:/usr/bin:/bin", "PYTHONHASHSEED=0", "LC_ALL=C.UTF-8", "PYTHONIOENCODING=utf-8"}
	cmd.Stderr = os.Stderr
	in, err := cmd.StdinPipe()
	if err != nil {
		return nil, err
	}
	out, err := cmd.StdoutPipe()
	if err != nil {
		return nil, err
	}
	if err := cmd.Start(); err != nil {
		return nil, err
	}
	return &PyServer{cmd: cmd, in: in, out: bufio.NewReaderSize(out, 1<<20)}, nil
}

// A PyReq is one program and the globals to report.
type PyReq struct {
	Src   string   `json:"src"`
	Names []string `json:"names"`
}

// EvalMany evaluates a batch of programs in one round trip (each in a fresh namespace).
func (p *PyServer) EvalMany(reqs []PyReq) ([]PyResult, error) {
	if len(reqs) == 0 {
		return nil, nil
	}
	req, _ := json.Marshal(reqs)
	if _, err := p.in.Write(append(req, '\n')); err != nil {
		return nil, err
	}
	line, err := p.out.ReadBytes('\n')
	if err != nil {
		return nil, fmt.Errorf("python oracle died: %w", err)
	}
	var res []PyResult
	if err := json.Unmarshal(line, &res); err != nil || len(res) != len(reqs) {
		return nil, fmt.Errorf("bad oracle reply %q: %v", line, err)
	}
	p.Evals += len(reqs)
	p.Trips++
	return res, nil
}

// Eval evaluates src and returns the final values of names.
func (p *PyServer) Eval(src string, names []string) (PyResult, error) {
	res, err := p.EvalMany([]PyReq{{Src: src, Names: names}})
	if err != nil {
		return PyResult{}, err
	}
	return res[0], nil
}

// Close stops the oracle.
func (p *PyServer) Close() {
	p.in.Close()
	p.cmd.Wait()
}

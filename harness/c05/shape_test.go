package c05

import (
	"math/rand"

	"verifharness/e2e"
)

// A fanIn describes a directed failure shape put into a generated repository: Top has (at least) the two
// dependencies Slow and Fail; Fail's command fails at once while Slow's sleeps; and Slow sorts before Fail in
// label order, which is the order in which the scheduler waits for a target's dependencies. So when the scheduler
// has finished waiting for Slow, Fail has usually failed already ("already finished" is not "built").
type fanIn struct {
	Top  string `json:"top"`
	Slow string `json:"slow"`
	Fail string `json:"fail"`
	Via  string `json:"via"` // how Top consumes Fail: existing | deps | srcs
}

// labelLess is core.BuildLabel.Less for labels of the main repository.
func labelLess(a, b *e2e.Target) bool {
	if a.Pkg != b.Pkg {
		return a.Pkg < b.Pkg
	}
	return a.Name < b.Name
}

// shapeFanInFailure rewrites the state (before it is materialised). Targets only depend on earlier targets, so
// adding edges from a later to an earlier target keeps the graph acyclic.
func shapeFanInFailure(rng *rand.Rand, state *e2e.Repo) (fanIn, bool) {
	plain := func(t *e2e.Target) bool { return t.Kind == "genrule" && !t.IsTool }
	closure := map[string]map[string]bool{}
	for _, t := range state.Targets {
		closure[t.Label()] = state.Closure(t.Label())
	}
	// independent(a, b): neither is in the other's closure
	independent := func(a, b *e2e.Target) bool {
		return !closure[a.Label()][b.Label()] && !closure[b.Label()][a.Label()]
	}
	type cand struct {
		top, slow, fail *e2e.Target
		via             string
	}
	var existing, addable []cand
	for ti, top := range state.Targets {
		if top.IsTool || top.Kind == "text_file" {
			continue
		}
		ins := top.Inputs()
		for _, sl := range ins {
			for _, fl := range ins {
				s, f := state.Target(sl), state.Target(fl)
				if s != nil && f != nil && s != f && plain(s) && plain(f) && labelLess(s, f) && independent(s, f) {
					existing = append(existing, cand{top, s, f, "existing"})
				}
			}
		}
		if top.Kind != "genrule" {
			continue
		}
		for si := 0; si < ti; si++ {
			for fi := 0; fi < ti; fi++ {
				s, f := state.Targets[si], state.Targets[fi]
				if si != fi && plain(s) && plain(f) && labelLess(s, f) && independent(s, f) {
					addable = append(addable, cand{top, s, f, ""})
				}
			}
		}
	}
	var c cand
	switch {
	case len(existing) > 0 && (len(addable) == 0 || rng.Intn(2) == 0):
		c = existing[rng.Intn(len(existing))]
	case len(addable) > 0:
		c = addable[rng.Intn(len(addable))]
		ins := c.top.Inputs()
		if !has(ins, c.slow.Label()) {
			c.top.Deps = append(c.top.Deps, c.slow.Label())
		}
		switch {
		case has(ins, c.fail.Label()):
			c.via = "existing"
		case rng.Intn(2) == 0:
			c.via = "deps"
			c.top.Deps = append(c.top.Deps, c.fail.Label())
		default:
			c.via = "srcs"
			c.top.SrcLabels = append(c.top.SrcLabels, c.fail.Label())
		}
	default:
		return fanIn{}, false
	}
	c.slow.SleepMS = 300 + rng.Intn(500)
	c.fail.SleepMS = 0
	c.fail.Fail = "exit1"
	// what the failing target waits for should be quick too
	for l := range closure[c.fail.Label()] {
		if t := state.Target(l); t != nil && t != c.fail {
			t.SleepMS = 0
		}
	}
	return fanIn{Top: c.top.Label(), Slow: c.slow.Label(), Fail: c.fail.Label(), Via: c.via}, true
}

func has(ss []string, s string) bool {
	for _, x := range ss {
		if x == s {
			return true
		}
	}
	return false
}

// C05 — builds always terminate and report failure faithfully.
// Monitor: generated repositories with one injected failure (failing command, missing declared
// output, BUILD syntax error, undefined dependency, missing package, dependency cycle, failing
// subinclude target, non-existent requested target; and, directed, a fan-in whose failing dependency comes
// later in the scheduler's wait order than a slow sibling) or none, built with and without --keep_going under
// varied parallelism and delay injection. Oracles: a reference "can this request be built" closure
// computed on the generated graph decides the expected exit class (zero / non-zero); the action probe
// shows whether any command ran although one of its dependencies failed and the verifhook trace whether
// any build step was started for such a target; a generous watchdog whose
// firing is classified by CPU progress / live children / goroutine dump decides hangs.
package c05

import (
	"fmt"
	"math/rand"
	"path/filepath"
	"sort"
	"strings"
	"testing"
	"time"

	"verifharness/e2e"
	"verifharness/lib"
)

type injection struct {
	Kind   string   `json:"kind"`
	Detail string   `json:"detail"`
	Failed []string `json:"failed_targets"` // labels that cannot be built because of the injection
	top    string   // fanin-fail: the target with the slow and the failing dependency
}

// downstreamOf returns a predicate: does label's closure (other than itself) contain a failed target?
func dependsOnFailed(state *e2e.Repo, failed map[string]bool, label string) bool {
	for l := range state.Closure(label) {
		if l != label && failed[l] {
			return true
		}
	}
	return false
}

func inject(rng *rand.Rand, state *e2e.Repo, kind string) (injection, bool) {
	inj := injection{Kind: kind}
	gr := []*e2e.Target{}
	for _, t := range state.Targets {
		if t.Kind == "genrule" && !t.IsTool {
			gr = append(gr, t)
		}
	}
	if len(gr) == 0 {
		return inj, false
	}
	t := gr[rng.Intn(len(gr))]
	switch kind {
	case "none":
	case "exit1", "missingout":
		t.Fail = kind
		inj.Detail, inj.Failed = t.Label(), []string{t.Label()}
	case "syntax-error":
		state.BadPkgs = []string{t.Pkg}
		inj.Detail = t.Pkg
		for _, x := range state.Targets {
			if x.Pkg == t.Pkg {
				inj.Failed = append(inj.Failed, x.Label())
			}
		}
	case "undefined-dep":
		t.Deps = append(t.Deps, "//"+t.Pkg+":does_not_exist")
		inj.Detail, inj.Failed = t.Label(), []string{t.Label()}
	case "missing-package":
		t.Deps = append(t.Deps, "//no/such/pkg:x")
		inj.Detail, inj.Failed = t.Label(), []string{t.Label()}
	case "cycle":
		// find a (earlier) and b (later) with b depending on a; add a -> b
		var cands [][2]*e2e.Target
		for _, b := range state.Targets {
			for l := range state.Closure(b.Label()) {
				a := state.Target(l)
				if a != nil && a != b && a.Kind == "genrule" {
					cands = append(cands, [2]*e2e.Target{a, b})
				}
			}
		}
		if len(cands) == 0 {
			return inj, false
		}
		c := cands[rng.Intn(len(cands))]
		c[0].Deps = append(c[0].Deps, c[1].Label())
		inj.Detail = c[0].Label() + " -> " + c[1].Label()
		// every target on a cycle: x is on a cycle iff x is in the closure of one of its own inputs
		for _, x := range state.Targets {
			for _, in := range x.Inputs() {
				if state.Closure(in)[x.Label()] {
					inj.Failed = append(inj.Failed, x.Label())
					break
				}
			}
		}
	case "fanin-fail":
		f, ok := shapeFanInFailure(rng, state)
		if !ok {
			return inj, false
		}
		inj.Detail = fmt.Sprintf("%s (top %s, slow sibling %s, via %s)", f.Fail, f.Top, f.Slow, f.Via)
		inj.Failed = []string{f.Fail}
		inj.top = f.Top
	case "defs-fail":
		if !state.Defs {
			return inj, false
		}
		state.DefsFail = true
		inj.Detail = "//defs:defs"
		for _, x := range state.Targets {
			inj.Failed = append(inj.Failed, x.Label())
		}
	}
	sort.Strings(inj.Failed)
	return inj, true
}

// ("fanin-fail" is not drawn from this list: it is assigned to the cases 4 mod 6)
var kinds = []string{"none", "exit1", "exit1", "missingout", "syntax-error", "undefined-dep", "missing-package", "cycle", "defs-fail", "bad-request"}

func TestC05(t *testing.T) {
	r := lib.Start("C05")
	defer lib.End(t, r)
	r.Rule = "case = one `plz build` invocation on a generated repository with one injected failure kind (or none; a third of the failing cases get a second, different failure elsewhere in the repository; cases 4 mod 6 get the directed fan-in failure: a target with a slow dependency and, later in label order, a dependency that fails at once, --keep_going in 5 of 6), request //... or a single target (inside or outside the failing region), --keep_going on/off, -n in {1,4,16}, delay injection at scheduler hook points, a third of the cases on the race-built binary; distinct by (repository, request, flags); non-trivial = a failure was injected and at least one command still ran"
	r.Assumes = []string{"expected exit class comes from reachability on the generated graph; exit codes are only classed zero / non-zero", "bounded time is decided as: not quiescent-hung when a 120 s watchdog fires (cycle detection legitimately waits 5 s); a busy process at the watchdog is inconclusive"}
	n := r.Pick(120, 4000)
	cycleBudget := n / 5
	r.ForEach("invocation", n, 8, func(i int, rng *rand.Rand) {
		sb := e2e.NewSandbox(filepath.Join(r.Scratch(), fmt.Sprintf("c%d", i)))
		defer lib.RemoveAll(sb.Work)
		state := e2e.Generate(rng, e2e.GenOpts{Tools: true, DirOuts: rng.Intn(3) == 0, Sleep: 10, MinTargets: 5, MaxTargets: 16, MaxPkgs: 4, DepOneIn: 2 + rng.Intn(3), Subinclude: rng.Intn(3) == 0})
		state.VLog = sb.VLog
		state.Strict = true
		kind := kinds[rng.Intn(len(kinds))]
		if kind == "cycle" && i%5 != 0 && i/5 < cycleBudget {
			// cycles cost 5 s each by design; keep them to about a fifth of the cases
			kind = "exit1"
		}
		// Directed: a sixth of the cases get the fan-in shape (a target with a slow dependency and, later in label
		// order, one that fails at once), nearly always with --keep_going, several threads and a request that needs it.
		fanin := i%6 == 4
		if fanin {
			kind = "fanin-fail"
		}
		var inj injection
		ok := false
		if kind == "bad-request" {
			inj, ok = injection{Kind: kind}, true
		} else {
			inj, ok = inject(rng, state, kind)
		}
		if !ok {
			inj, _ = inject(rng, state, "none")
			fanin = false
		}
		// A third of the failing cases get a second, different failure elsewhere in the same repository
		// (e.g. a failing command plus an unrelated dependency cycle): the two must not mask each other.
		injs := []injection{inj}
		if inj.Kind != "none" && inj.Kind != "bad-request" && inj.Kind != "defs-fail" && rng.Intn(3) == 0 {
			second := []string{"exit1", "missingout", "undefined-dep", "missing-package", "cycle", "syntax-error"}[rng.Intn(6)]
			if second == "cycle" && i%5 != 0 {
				second = "exit1"
			}
			if second != inj.Kind {
				if inj2, ok2 := inject(rng, state, second); ok2 {
					injs = append(injs, inj2)
					inj.Kind += "+" + inj2.Kind
					inj.Detail += " ; " + inj2.Detail
					inj.Failed = append(inj.Failed, inj2.Failed...)
					sort.Strings(inj.Failed)
					r.Obs("double_injections", 1)
				}
			}
		}
		failed := map[string]bool{}
		for _, l := range inj.Failed {
			failed[l] = true
		}
		if err := state.Materialize(sb.Repo); err != nil {
			panic(err)
		}
		// request
		request := "//..."
		expectFail := len(inj.Failed) > 0
		switch {
		case inj.Kind == "bad-request":
			request = []string{"//" + state.Targets[0].Pkg + ":nope", "//nopkg:x", "//" + state.Targets[0].Pkg + "/nosub:all"}[rng.Intn(3)]
			expectFail = true
		case rng.Intn(2) == 0:
			tg := state.Targets[rng.Intn(len(state.Targets))]
			request = tg.Label()
			expectFail = false
			for l := range state.Closure(tg.Label()) {
				if failed[l] {
					expectFail = true
				}
			}
			for _, one := range injs {
				if one.Kind == "syntax-error" && tg.Pkg == one.Detail {
					expectFail = true
				}
				if one.Kind == "defs-fail" {
					expectFail = true
				}
			}
		}
		keepGoing := rng.Intn(2) == 0
		threads := []int{1, 4, 16}[rng.Intn(3)]
		if fanin {
			keepGoing = rng.Intn(6) != 0
			threads = []int{2, 4, 16}[rng.Intn(3)]
			if request != "//..." && !state.Closure(request)[inj.top] {
				// ask for something that needs the fan-in: the target itself or one of its dependents
				var need []string
				for _, tg := range state.Targets {
					if state.Closure(tg.Label())[inj.top] {
						need = append(need, tg.Label())
					}
				}
				request = need[rng.Intn(len(need))]
				expectFail = true
			}
			r.Obs("fanin_failure_cases", 1)
		}
		race := i%3 == 0
		bin := lib.PlzBin(race)
		args := []string{"build", "-n", fmt.Sprint(threads)}
		if keepGoing {
			args = append(args, "--keep_going")
		}
		args = append(args, request)
		trace := filepath.Join(sb.Work, "trace")
		env := []string{"VERIF_TRACE=" + trace, fmt.Sprintf("VERIF_HOOK_DELAY=%d:%g:%d", rng.Int63n(1<<30), []float64{0, 0.1, 0.3}[rng.Intn(3)], []int{0, 500, 3000}[rng.Intn(3)])}
		res := sb.PlzWatched(bin, env, 120*time.Second, args...)
		probe := sb.ReadProbe()
		r.Case(lib.JSON(state.AllFiles())+strings.Join(args, " "), inj.Kind != "none" && len(probe.Started) > 0)
		r.Obs("invocations", 1)
		r.ObsDistinct("failure_kinds", inj.Kind)
		r.Obs("commands_executed", int64(len(probe.Started)))
		if expectFail {
			r.Obs("expected_nonzero", 1)
		} else {
			r.Obs("expected_zero", 1)
		}
		wit := map[string]any{"state": state, "injection": inj, "args": args, "race_binary": race, "exit": res.Exit, "stderr": lib.Tail(res.Stderr, 2500), "started": probe.Started}
		if res.TimedOut {
			wit["watchdog"] = res.Watchdog
			if strings.HasPrefix(res.Watchdog, "hang") {
				r.Violation("hang/"+inj.Kind, fmt.Sprintf("plz build did not terminate: quiescent at the 120 s watchdog (%s); injection %s", res.Watchdog, inj.Kind), wit, i)
			} else {
				r.Inconclusive(fmt.Sprintf("case %d (%s): watchdog fired but the process was %s", i, inj.Kind, res.Watchdog))
			}
			return
		}
		if strings.Contains(res.Stderr, "\npanic: ") || strings.Contains(res.Stderr, "fatal error: ") {
			r.Violation("runtime-panic/"+inj.Kind, "plz crashed with a Go runtime panic", wit, i)
			return
		}
		if expectFail && res.Exit == 0 {
			r.Violation("exit-zero-despite-failure/"+inj.Kind, fmt.Sprintf("plz exits 0 although the request %s needs %v which cannot be built (%s %s)", request, inj.Failed, inj.Kind, inj.Detail), wit, i)
		}
		if !expectFail && res.Exit != 0 {
			r.Violation("exit-nonzero-although-buildable/"+inj.Kind, fmt.Sprintf("plz exits %d although everything the request %s needs can be built (injection %s at %s is outside its closure)", res.Exit, request, inj.Kind, inj.Detail), wit, i)
		}
		// never runs a target whose dependency failed
		for _, id := range probe.Started {
			for _, tg := range state.Targets {
				if tg.ID() != id {
					continue
				}
				if dependsOnFailed(state, failed, tg.Label()) {
					r.Violation("ran-after-failed-dependency/"+inj.Kind, fmt.Sprintf("command of %s ran although a dependency cannot be built (%s %s)", tg.Label(), inj.Kind, inj.Detail), wit, i)
				}
				for _, one := range injs {
					if (one.Kind == "undefined-dep" || one.Kind == "missing-package") && tg.Label() == one.Detail {
						r.Violation("ran-with-unresolvable-dependency/"+inj.Kind, fmt.Sprintf("command of %s ran although one of its declared dependencies does not exist", tg.Label()), wit, i)
					}
				}
			}
		}
		// ... nor starts its build step (which would then fail on its own account, or, for a target without a command such
		// as a filegroup, "succeed" and let everything behind it run)
		evs, _ := e2e.ReadTrace(trace)
		sum, _ := e2e.CheckTrace(evs, false)
		r.Obs("trace_events", int64(sum.Events))
		r.Obs("build_steps_started", int64(sum.BuildStarts))
		for _, l := range sum.Started {
			if state.Target(l) != nil && dependsOnFailed(state, failed, l) {
				r.Violation("build-step-started-after-failed-dependency/"+inj.Kind, fmt.Sprintf("the build step of %s was started although a dependency cannot be built (%s %s)", l, inj.Kind, inj.Detail), wit, i)
				break
			}
		}
		for _, v := range probe.Violations {
			f := strings.Fields(v)
			r.Violation("probe-"+f[0]+"/"+inj.Kind, "action probe: "+v, wit, i)
		}
		// Exit status 0 claims that everything requested was built: then every requested command-bearing
		// target that is not affected by the injected failure must have run to its end (plz-out was empty).
		// (What --keep_going still builds after a failure is not part of the property and is only counted.)
		if res.Exit == 0 && inj.Kind != "bad-request" {
			want := state.Targets
			if request != "//..." {
				want = nil
				for l := range state.Closure(request) {
					want = append(want, state.Target(l))
				}
			}
			ended := map[string]bool{}
			for _, id := range probe.Ended {
				ended[id] = true
			}
			for _, tg := range want {
				if !tg.HasCommand() || failed[tg.Label()] || dependsOnFailed(state, failed, tg.Label()) {
					continue
				}
				if !ended[tg.ID()] {
					r.Violation("exit-zero-but-target-not-built/"+inj.Kind, fmt.Sprintf("plz exits 0 but %s, which is requested (keep_going=%v) and not affected by the injection (%s %s), did not run to the end", tg.Label(), keepGoing, inj.Kind, inj.Detail), wit, i)
					break
				}
			}
			r.Obs("completeness_checked", 1)
		}
		if r.WantSample() {
			r.Sample(map[string]any{"injection": inj, "args": args, "exit": res.Exit, "commands_ran": len(probe.Started), "targets": len(state.Targets)})
		}
	})
	r.RequireObserved("invocations", "expected_nonzero", "expected_zero", "commands_executed", "trace_events")
}

// C38 — `plz fmt` never changes what a BUILD file means.
// Monitor: generated BUILD / build_defs files (gen.go) are evaluated in-process through the real asp
// interpreter (asplib: values exported with text_file(content = json(...)), targets from the parsed
// package), reformatted with the real format.Format(config, [file], rewrite=true, quiet=true),
// evaluated again and formatted a second time. For a file asp accepts: the formatted file must be
// accepted, export the same values, define the same targets with the same attributes, and a second
// format must not change it. Files the formatter's own parser rejects are vacuous (counted).
// A diverging file is attributed to the single item (or adjacent pair of items) that reproduces the
// divergence on its own, re-rendered without layout noise where possible; the witness key is the
// divergence class plus that item's feature tag.
package c38

import (
	"encoding/json"
	"fmt"
	"math/rand"
	"os"
	"path/filepath"
	"sort"
	"strings"
	"sync"
	"sync/atomic"
	"testing"

	"github.com/thought-machine/please/src/core"
	"github.com/thought-machine/please/src/format"

	"verifharness/asplib"
	"verifharness/iplib"
	"verifharness/lib"
)

type mon struct {
	r      *lib.Run
	root   string
	env    *asplib.Env
	config *core.Configuration
	seq    atomic.Int64
	keys   sync.Map

	notesMu sync.Mutex
	notes   map[string]map[string]int
}

// An outcome is what one file did under evaluate / format / evaluate / format.
type outcome struct {
	Class    string `json:"class"` // ok | vacuous-asp | vacuous-fmt | rejected-after-fmt | value-changed | target-changed | not-idempotent | fmt-panic
	Detail   string `json:"detail,omitempty"`
	Before   string `json:"before"`
	After    string `json:"after,omitempty"`
	Second   string `json:"second,omitempty"`
	AspErr   string `json:"asp_error_before,omitempty"`
	FmtErr   string `json:"fmt_error,omitempty"`
	Changed  bool   `json:"changed_by_fmt"`
	ValuesB  string `json:"values_before,omitempty"`
	ValuesA  string `json:"values_after,omitempty"`
	Unstable bool   `json:"second_format_changed_text,omitempty"` // recorded even for files asp rejects
}

func (o outcome) violation() bool {
	switch o.Class {
	case "ok", "vacuous-asp", "vacuous-fmt":
		return false
	}
	return true
}

// setAttrs are target attributes that Please treats as sets (order and repetition carry no meaning).
var setAttrs = []string{"deps", "visibility"}

// normTargets renders the targets of a result canonically, with the package name abstracted and
// set-like attributes sorted and de-duplicated.
func normTargets(res asplib.Result, pkg string) (map[string]string, bool) {
	out := map[string]string{}
	reordered := false
	for name, dump := range res.Targets {
		dump = strings.ReplaceAll(dump, pkg, "PKG")
		var m map[string]any
		if json.Unmarshal([]byte(dump), &m) == nil {
			for _, a := range setAttrs {
				if l, ok := m[a].([]any); ok {
					ss := make([]string, 0, len(l))
					seen := map[string]bool{}
					for _, x := range l {
						s := fmt.Sprint(x)
						if !seen[s] {
							seen[s] = true
							ss = append(ss, s)
						}
					}
					if !sort.StringsAreSorted(ss) || len(ss) != len(l) {
						reordered = true
					}
					sort.Strings(ss)
					m[a] = ss
				}
			}
			b, _ := json.Marshal(m)
			dump = string(b)
		}
		out[name] = dump
	}
	return out, reordered
}

func (m *mon) eval(src string) (asplib.Result, string) {
	pkg := fmt.Sprintf("e%d", m.seq.Add(1))
	res := m.env.ParseSource(pkg, src)
	res.Err = strings.ReplaceAll(res.Err, pkg, "PKG")
	return res, pkg
}

// runFmt formats the file at path in place through the real entry point.
func (m *mon) runFmt(path string) (changed bool, err error, panicked string) {
	defer func() {
		if p := recover(); p != nil {
			panicked = fmt.Sprint(p)
		}
	}()
	changed, err = format.Format(m.config, []string{path}, true, true)
	return
}

// run takes one file text through evaluate / format / evaluate / format.
func (m *mon) run(name, src string) outcome {
	o := outcome{Before: src}
	dir := filepath.Join(m.root, "fmt", fmt.Sprint(m.seq.Add(1)))
	if err := os.MkdirAll(dir, 0o755); err != nil {
		panic(err)
	}
	defer os.RemoveAll(dir)
	path := filepath.Join(dir, name)
	if err := os.WriteFile(path, []byte(src), 0o644); err != nil {
		panic(err)
	}
	before, pkgB := m.eval(src)
	o.AspErr = before.Err

	changed, err, pan := m.runFmt(path)
	if pan != "" {
		o.Class, o.Detail = "fmt-panic", pan
		if before.Err != "" {
			o.Class = "vacuous-asp" // the statement is about files Please accepts
		}
		return o
	}
	if err != nil {
		o.FmtErr = err.Error()
		o.Class = "vacuous-fmt"
		if before.Err != "" {
			o.Class = "vacuous-asp"
		}
		return o
	}
	b, err := os.ReadFile(path)
	if err != nil {
		panic(err)
	}
	o.After = string(b)
	o.Changed = changed
	if changed != (o.After != src) {
		o.Detail = fmt.Sprintf("Format reported changed=%v but text changed=%v", changed, o.After != src)
	}

	changed2, err2, pan2 := m.runFmt(path)
	b2, _ := os.ReadFile(path)
	o.Second = string(b2)
	o.Unstable = pan2 != "" || err2 != nil || changed2 || o.Second != o.After

	if before.Err != "" {
		o.Class = "vacuous-asp"
		return o
	}
	after, pkgA := m.eval(o.After)
	if after.Err != "" {
		o.Class, o.Detail = "rejected-after-fmt", after.Err
		return o
	}
	o.ValuesB, o.ValuesA = before.Export, after.Export
	if !asplib.JSONEqual(before.Export, after.Export) {
		o.Class = "value-changed"
		o.Detail = valueDiff(before.Export, after.Export)
		return o
	}
	tb, _ := normTargets(before, pkgB)
	ta, _ := normTargets(after, pkgA)
	if d := targetDiff(tb, ta); d != "" {
		o.Class, o.Detail = "target-changed", d
		return o
	}
	if o.Unstable {
		o.Class = "not-idempotent"
		switch {
		case pan2 != "":
			o.Detail = "second format panicked: " + pan2
		case err2 != nil:
			o.Detail = "second format failed: " + err2.Error()
		default:
			o.Detail = "second format changed the text again: " + firstDiffLine(o.After, o.Second)
		}
		return o
	}
	o.Class = "ok"
	return o
}

func firstDiffLine(a, b string) string {
	la, lb := strings.Split(a, "\n"), strings.Split(b, "\n")
	for i := 0; i < len(la) || i < len(lb); i++ {
		x, y := "<eof>", "<eof>"
		if i < len(la) {
			x = la[i]
		}
		if i < len(lb) {
			y = lb[i]
		}
		if x != y {
			return fmt.Sprintf("line %d: %q -> %q", i+1, x, y)
		}
	}
	return "no difference"
}

func valueDiff(a, b string) string {
	var x, y map[string]any
	if json.Unmarshal([]byte(a), &x) != nil || json.Unmarshal([]byte(b), &y) != nil {
		return fmt.Sprintf("exports differ: %.200q vs %.200q", a, b)
	}
	var ks []string
	for k := range x {
		ks = append(ks, k)
	}
	for k := range y {
		if _, ok := x[k]; !ok {
			ks = append(ks, k)
		}
	}
	sort.Strings(ks)
	for _, k := range ks {
		xa, _ := json.Marshal(x[k])
		ya, _ := json.Marshal(y[k])
		if string(xa) != string(ya) {
			return fmt.Sprintf("%s: %.300s -> %.300s", k, xa, ya)
		}
	}
	return "exports differ"
}

func targetDiff(a, b map[string]string) string {
	var ks []string
	for k := range a {
		ks = append(ks, k)
	}
	for k := range b {
		if _, ok := a[k]; !ok {
			ks = append(ks, k)
		}
	}
	sort.Strings(ks)
	for _, k := range ks {
		if a[k] != b[k] {
			return fmt.Sprintf("target %s: %s -> %s", k, orNone(a[k]), orNone(b[k]))
		}
	}
	return ""
}

func orNone(s string) string {
	if s == "" {
		return "(no such target)"
	}
	return s
}

// attrOf names the first differing attribute of the first differing target ("" if none).
func attrOf(detail string) string {
	i := strings.Index(detail, ": {")
	j := strings.Index(detail, " -> {")
	if i < 0 || j < 0 {
		return ""
	}
	var x, y map[string]any
	if json.Unmarshal([]byte(detail[i+2:j]), &x) != nil || json.Unmarshal([]byte(detail[j+4:]), &y) != nil {
		return ""
	}
	var ks []string
	for k := range x {
		ks = append(ks, k)
	}
	for k := range y {
		ks = append(ks, k)
	}
	sort.Strings(ks)
	for _, k := range ks {
		xa, _ := json.Marshal(x[k])
		ya, _ := json.Marshal(y[k])
		if string(xa) != string(ya) {
			return k
		}
	}
	return ""
}

// rejectReason summarises why asp rejects the formatted text.
func rejectReason(o outcome) string {
	if strings.Contains(o.After, " \\\n") && !strings.Contains(o.Before, " \\\n") {
		return "backslash-continuation"
	}
	d := o.Detail
	switch {
	case strings.Contains(d, "Unknown symbol"):
		return "unknown-symbol"
	case strings.Contains(d, "Unterminated"):
		return "unterminated-string"
	case strings.Contains(d, "Unexpected indent"), strings.Contains(d, "unindent"):
		return "indentation"
	case strings.Contains(d, "nexpected token"), strings.Contains(d, "expected"):
		return "syntax"
	case strings.HasPrefix(d, "PANIC"):
		return "asp-panic"
	}
	return "evaluation-error"
}

type witness struct {
	File       File     `json:"file"`
	Items      []int    `json:"items_kept"`
	Canonical  bool     `json:"rendered_without_layout_noise"`
	LayoutOff  []string `json:"layout_noise_switched_off,omitempty"`
	LayoutKept []string `json:"layout_noise_needed,omitempty"`
	Minimal    string   `json:"minimal_source"`
	Outcome    outcome  `json:"outcome"`
}

func sameFailure(a, b outcome) bool {
	if a.Class != b.Class {
		return false
	}
	if a.Class == "rejected-after-fmt" {
		return rejectReason(a) == rejectReason(b)
	}
	return true
}

// attribute finds the smallest piece of f that reproduces the whole file's divergence and reports it.
func (m *mon) attribute(idx int, f File, whole outcome, skipSingles bool) (bad []int) {
	r := m.r
	key := func(o outcome, tag string) string {
		k := o.Class + "/" + tag
		switch o.Class {
		case "rejected-after-fmt":
			k = o.Class + "/" + rejectReason(o) + "/" + tag
		case "target-changed":
			if a := attrOf(o.Detail); a != "" {
				k = o.Class + "/attr-" + a + "/" + tag
			}
		case "not-idempotent":
			if strings.HasPrefix(tag, "target-list/") || strings.HasPrefix(tag, "call-list/") {
				k = o.Class + "/sortable-string-list"
			}
		}
		return k
	}
	plainKey := key
	key = func(o outcome, tag string) string {
		// Divergences with a recognisable textual signature are named after it, whatever item they came from.
		if o.Class == "value-changed" || o.Class == "rejected-after-fmt" {
			a, b := stripPreamble(o.After), stripPreamble(o.Before)
			if (strings.Contains(a, " is (") && !strings.Contains(b, " is (")) || (strings.Contains(a, ") is ") && !strings.Contains(b, ") is ")) {
				return o.Class + "/is-operator-reparenthesised"
			}
		}
		return plainKey(o, tag)
	}
	report := func(k string, w witness) {
		if _, loaded := m.keys.LoadOrStore(k, true); !loaded && os.Getenv("C38_DEBUG_KEY") != "" && strings.Contains(k, os.Getenv("C38_DEBUG_KEY")) {
			// development aid: show the first witness of matching keys in full
			fmt.Printf("DEBUG key=%s\n--- minimal source\n%s\n--- detail: %s\n--- after fmt\n%s\n--- second fmt\n%s\n", k, w.Minimal, w.Outcome.Detail, stripPreamble(w.Outcome.After), stripPreamble(w.Outcome.Second))
		}
		w.Outcome.ValuesA, w.Outcome.ValuesB = "", ""
		r.Violation(k, fmt.Sprintf("%s: %s | before: %s | after fmt: %s", w.Outcome.Class, w.Outcome.Detail, clip(stripPreamble(w.Outcome.Before)), clip(stripPreamble(w.Outcome.After))), w, idx)
	}
	plain := File{Name: f.Name, Items: f.Items} // without CRLF / missing final newline
	found := false
	if f.CRLF || f.NoEOL {
		// Does the divergence need the file-level property at all?
		if o := m.run(plain.Name, plain.Source(nil)); !o.violation() {
			suffix := "+crlf-file"
			if !f.CRLF {
				suffix = "+no-final-newline"
			}
			for _, it := range f.Items {
				one := File{Name: f.Name, Items: []Item{it}, CRLF: f.CRLF, NoEOL: f.NoEOL}
				if o := m.run(one.Name, one.Source(nil)); o.violation() {
					found = true
					k := key(o, it.Tag) + suffix
					if f.CRLF && strings.HasPrefix(it.Tag, "str/") && o.Class == "value-changed" {
						k = "value-changed/str/multiline-string-in-crlf-file"
					}
					report(k, witness{File: one, Items: []int{0}, Minimal: stripPreamble(one.Source(nil)), Outcome: o})
				}
			}
			if found {
				return nil
			}
		}
	}
	for i, it := range f.Items {
		if skipSingles {
			break
		}
		one := File{Name: plain.Name, Items: []Item{it}}
		o := m.run(one.Name, one.Source(nil))
		if !o.violation() {
			continue
		}
		found = true
		bad = append(bad, i)
		// Same feature choices without layout noise?
		can := File{Name: plain.Name, Items: []Item{it.Canonical(i)}}
		if oc := m.run(can.Name, can.Source(nil)); oc.violation() && sameFailure(oc, o) {
			report(key(oc, it.Tag), witness{File: can, Items: []int{0}, Canonical: true, Minimal: stripPreamble(can.Source(nil)), Outcome: oc})
			continue
		}
		// Needs layout noise: switch kinds off greedily.
		off := map[string]bool{}
		cur, curO := it, o
		for _, kind := range it.Noise {
			off[kind] = true
			cand := it.Without(i, off)
			oc := m.run(plain.Name, File{Name: plain.Name, Items: []Item{cand}}.Source(nil))
			if oc.violation() && sameFailure(oc, o) {
				cur, curO = cand, oc
			} else {
				delete(off, kind)
			}
		}
		var offL []string
		for k := range off {
			offL = append(offL, k)
		}
		sort.Strings(offL)
		k := key(curO, it.Tag)
		if !strings.HasSuffix(k, "/sortable-string-list") {
			k += layoutSuffix(cur.Noise)
		}
		report(k, witness{File: File{Name: plain.Name, Items: []Item{cur}}, Items: []int{0}, LayoutOff: offL, LayoutKept: cur.Noise,
			Minimal: stripPreamble(File{Name: plain.Name, Items: []Item{cur}}.Source(nil)), Outcome: curO})
	}
	if found {
		return bad
	}
	// Adjacent pairs (statement merging, comment attachment between statements).
	for i := 0; i+1 < len(f.Items); i++ {
		two := File{Name: plain.Name, Items: []Item{f.Items[i], f.Items[i+1]}}
		if o := m.run(two.Name, two.Source(nil)); o.violation() {
			found = true
			report(key(o, "pair:"+f.Items[i].Tag+"+"+f.Items[i+1].Tag), witness{File: two, Items: []int{i, i + 1}, Minimal: stripPreamble(two.Source(nil)), Outcome: o})
		}
	}
	if found {
		return nil
	}
	// File-level properties (line endings, missing final newline) or a wider interaction.
	if f.CRLF || f.NoEOL {
		none := File{Name: f.Name, CRLF: f.CRLF, NoEOL: f.NoEOL}
		if o := m.run(none.Name, none.Source(nil)); o.violation() {
			k := "file/crlf"
			if !f.CRLF {
				k = "file/no-final-newline"
			}
			report(key(o, k), witness{File: none, Minimal: none.Source(nil), Outcome: o})
			return nil
		}
	}
	var tags []string
	for _, it := range f.Items {
		tags = append(tags, it.Tag)
	}
	report(key(whole, "whole-file:"+strings.Join(tags, "+")), witness{File: f, Minimal: stripPreamble(f.Source(nil)), Outcome: whole})
	return nil
}

func stripPreamble(s string) string {
	s = strings.ReplaceAll(s, "\r\n", "\n")
	if i := strings.Index(s, "return [name, srcs, outs, deps, tools, data, visibility, tags, labels, cmd, a, b, z]\n"); i >= 0 {
		s = s[i+len("return [name, srcs, outs, deps, tools, data, visibility, tags, labels, cmd, a, b, z]\n"):]
	}
	return strings.TrimLeft(s, "\n")
}

func clip(s string) string {
	if len(s) > 400 {
		return s[:400] + "…"
	}
	return s
}

// semanticNoise are the layout-noise kinds that buildifier's own logic looks at (comments and blank
// lines); only these take part in witness keys, pure spacing kinds are recorded in the witness.
var semanticNoise = map[string]bool{"comment-line-in-seq": true, "suffix-comment-in-seq": true, "comment-before-close": true, "comment-before-stmt": true,
	"comment-block-detached": true, "suffix-comment": true, "blank-line-in-seq": true, "extra-blank-lines": true}

func layoutSuffix(kinds []string) string {
	var sem []string
	for _, k := range kinds {
		if semanticNoise[k] {
			sem = append(sem, k)
		}
	}
	if len(sem) == 0 {
		return "+layout-dependent"
	}
	return "+layout:" + strings.Join(sem, ",")
}

func (m *mon) checkFile(idx int, f File) {
	r := m.r
	src := f.Source(nil)
	o := m.run(f.Name, src)
	r.Obs("files", 1)
	r.Obs("first_outcome/"+o.Class, 1)
	for _, it := range f.Items {
		r.ObsDistinct("feature_tags", it.Tag)
		r.ObsDistinct("feature_instances", it.Tag+"|"+it.Variant)
		r.Obs("items/"+strings.SplitN(it.Tag, "/", 2)[0], 1)
	}
	if o.Class == "vacuous-asp" || o.Class == "vacuous-fmt" {
		// One rejected item must not void the rest of the file: drop the items that asp or the
		// formatter's parser reject on their own and check what remains.
		var keep []int
		for i, it := range f.Items {
			oi := m.run(f.Name, File{Name: f.Name, Items: []Item{it}}.Source(nil))
			switch oi.Class {
			case "vacuous-asp":
				r.Obs("items_rejected_by_asp", 1)
				m.note("asp_rejects", it.Tag+"|"+it.Variant+": "+clipN(oi.AspErr, 80))
			case "vacuous-fmt":
				r.Obs("items_rejected_by_fmt_parser", 1)
				m.note("fmt_parser_rejects", it.Tag+"|"+it.Variant+": "+clipN(lastField(oi.FmtErr), 80))
			default:
				keep = append(keep, i)
			}
		}
		if len(keep) > 0 && len(keep) < len(f.Items) {
			var items []Item
			for _, i := range keep {
				items = append(items, f.Items[i])
			}
			f = File{Name: f.Name, Items: items, CRLF: f.CRLF, NoEOL: f.NoEOL}
			src = f.Source(nil)
			o = m.run(f.Name, src)
			r.Obs("files_rechecked_without_rejected_items", 1)
		}
	}
	r.Case(src, o.Class != "vacuous-asp" && o.Class != "vacuous-fmt" && o.Changed)
	r.Obs("outcome/"+o.Class, 1)
	if o.Changed {
		r.Obs("files_rewritten_by_fmt", 1)
	}
	if o.Class == "vacuous-asp" && o.Unstable {
		r.Obs("second_format_changed_text_of_asp_rejected_file", 1)
	}
	if o.Class == "vacuous-asp" {
		m.note("asp_rejects", "file: "+clipN(o.AspErr, 80))
	}
	if o.Class == "vacuous-fmt" {
		m.note("fmt_parser_rejects", "file: "+clipN(lastField(o.FmtErr), 80))
	}
	if strings.Count(o.After, "subinclude(") < strings.Count(src, "subinclude(") && o.After != "" {
		r.Obs("files_with_merged_subincludes", 1)
	}
	if strings.Contains(o.After, " \\\n") {
		r.Obs("files_where_fmt_emitted_backslash_continuation", 1)
	}
	if r.WantSample() && o.Class == "ok" && o.Changed && len(f.Items) <= 5 {
		r.Sample(map[string]any{"file": f.Name, "before": stripPreamble(src), "after_fmt": stripPreamble(o.After), "exported_values": o.ValuesA})
	}
	if o.violation() {
		bad := m.attribute(idx, f, o, false)
		if len(bad) > 0 && len(bad) < len(f.Items) {
			// Items that diverge on their own must not hide interactions among the others.
			isBad := map[int]bool{}
			for _, i := range bad {
				isBad[i] = true
			}
			rest := File{Name: f.Name, CRLF: f.CRLF, NoEOL: f.NoEOL}
			for i, it := range f.Items {
				if !isBad[i] {
					rest.Items = append(rest.Items, it)
				}
			}
			o2 := m.run(rest.Name, rest.Source(nil))
			r.Obs("files_rechecked_without_diverging_items", 1)
			r.Obs("recheck_outcome/"+o2.Class, 1)
			if o2.violation() {
				m.attribute(idx, rest, o2, true)
			}
		}
	}
}

// note keeps a bounded set of example strings per topic for the evidence.
func (m *mon) note(topic, s string) {
	m.notesMu.Lock()
	defer m.notesMu.Unlock()
	if m.notes == nil {
		m.notes = map[string]map[string]int{}
	}
	if m.notes[topic] == nil {
		m.notes[topic] = map[string]int{}
	}
	if len(m.notes[topic]) < 60 || m.notes[topic][s] > 0 {
		m.notes[topic][s]++
	}
}

func clipN(s string, n int) string {
	if len(s) > n {
		return s[:n]
	}
	return s
}

func lastField(s string) string {
	if i := strings.LastIndex(s, ": "); i >= 0 {
		return s[i+2:]
	}
	return s
}

func newMon(r *lib.Run) *mon {
	root := asplib.Init(r.Scratch())
	m := &mon{r: r, root: root, env: asplib.NewEnv(nil), config: core.DefaultConfiguration()}
	m.config.Please.NumThreads = 1
	for name, text := range DefsFiles() {
		asplib.WriteDefs("defs", name, text)
		m.env.AddDefs("defs", name)
	}
	return m
}

func TestC38(t *testing.T) {
	iplib.Quiet()
	r := lib.Start("C38")
	defer lib.End(t, r)
	r.Rule = "files = fixed preamble + 3..10 independent items, each one syntactic feature (string literal forms incl. backslashes / raw / triple-quoted / f-strings, adjacent-literal concatenation, int forms, operators and parentheses, literals, comprehensions, inline if, dict unions, calls with keyword order and long argument lists, string lists and labels in sortable/label-named arguments, defs with |-types and &-aliases and docstrings, if/elif/else, for, simple statements, comments, build targets, consecutive subincludes, package()) rendered canonically or with layout noise; all globals exported via json(). Distinct by file text; non-trivial = asp accepts it, fmt accepts it and fmt rewrites it"
	r.Assumes = []string{
		"asp evaluation through parse.InitParser + Parser.ParseReader on one shared BuildState (asplib); values leave through text_file(content = json(...)), targets through the parsed package (asplib.DumpTarget)",
		"deps and visibility are compared as sets (Please gives their order and repetition no meaning); every other attribute is compared exactly",
		"files are evaluated as BUILD files of a package whatever their name; //defs:d0..d7 are registered as built targets so that the real subinclude() runs",
	}
	m := newMon(r)
	r.ForEach("files", r.Pick(1500, 20000), 8, func(i int, rng *rand.Rand) {
		m.checkFile(i, GenFile(rng))
	})
	if !r.Replaying() {
		m.e2e(r.Pick(40, 400))
	}
	var keys []string
	m.keys.Range(func(k, _ any) bool { keys = append(keys, k.(string)); return true })
	sort.Strings(keys)
	r.Extra("violation_keys_seen", keys)
	r.Extra("rejected_examples", m.notes)
	r.RequireObserved("outcome/ok", "files_rewritten_by_fmt", "files_with_merged_subincludes", "e2e_files_identical_to_in_process_fmt")
}

// e2e ties the in-process route to the command line: the same generated files are formatted by
// `plz fmt -w` (the binary built from the same tree) and by format.Format in-process; the texts must
// be identical. A difference means the monitor is not observing what users run: inconclusive.
func (m *mon) e2e(n int) {
	r := m.r
	repo := filepath.Join(r.Scratch(), "e2e", "repo")
	if err := os.MkdirAll(repo, 0o755); err != nil {
		r.Inconclusive("e2e: " + err.Error())
		return
	}
	os.WriteFile(filepath.Join(repo, ".plzconfig"), []byte(lib.DefaultPlzConfig), 0o644)
	var files []string
	want := map[string]string{}
	for i := 0; i < n; i++ {
		f := GenFile(r.Rand("e2e", i))
		f.Name = "BUILD"
		src := f.Source(nil)
		o := m.run("BUILD", src)
		if o.Class == "vacuous-fmt" || o.Class == "fmt-panic" || o.After == "" {
			continue // the CLI would stop at this file's parse error
		}
		rel := filepath.Join(fmt.Sprintf("p%d", i), "BUILD")
		os.MkdirAll(filepath.Join(repo, filepath.Dir(rel)), 0o755)
		if err := os.WriteFile(filepath.Join(repo, rel), []byte(src), 0o644); err != nil {
			r.Inconclusive("e2e: " + err.Error())
			return
		}
		files = append(files, rel)
		want[rel] = o.After
	}
	if len(files) == 0 {
		r.Inconclusive("e2e: no file for the CLI sample")
		return
	}
	res := lib.PlzCmd{Bin: lib.PlzBin(false), Dir: repo, Args: append([]string{"fmt", "-w"}, files...)}.Run()
	if res.TimedOut {
		r.Inconclusive("e2e: plz fmt -w did not finish")
		return
	}
	r.Obs("e2e_plz_fmt_invocations", 1)
	for _, rel := range files {
		b, err := os.ReadFile(filepath.Join(repo, rel))
		if err != nil {
			r.Inconclusive("e2e: " + err.Error())
			return
		}
		if string(b) == want[rel] {
			r.Obs("e2e_files_identical_to_in_process_fmt", 1)
		} else {
			r.Obs("e2e_files_differing_from_in_process_fmt", 1)
			r.Inconclusive(fmt.Sprintf("e2e: `plz fmt -w %s` (exit %d) wrote text that differs from in-process format.Format: %s | stderr: %s", rel, res.Exit, firstDiffLine(want[rel], string(b)), lib.Tail(res.Stderr, 300)))
		}
	}
}

package c38

import (
	"fmt"
	"os"
	"testing"

	"verifharness/iplib"
	"verifharness/lib"
)

// TestProbe is a development aid: C38_PROBE=<file> runs one file text (without preamble unless it
// contains one) through evaluate / format / evaluate / format and prints what happened.
func TestProbe(t *testing.T) {
	p := os.Getenv("C38_PROBE")
	if p == "" {
		t.Skip("C38_PROBE not set")
	}
	iplib.Quiet()
	r := lib.Start("C38")
	m := newMon(r)
	b, err := os.ReadFile(p)
	if err != nil {
		t.Fatal(err)
	}
	o := m.run("BUILD", string(b))
	fmt.Printf("class=%s\ndetail=%s\nasp_err=%s\nfmt_err=%s\nvalues_before=%s\nvalues_after=%s\n--- after\n%s\n--- second\n%s\n", o.Class, o.Detail, o.AspErr, o.FmtErr, o.ValuesB, o.ValuesA, o.After, o.Second)
	os.RemoveAll(r.Scratch())
}

// TestProbeGen (development aid, C38_PROBEGEN=1) prints generated items that asp rejects.
func TestProbeGen(t *testing.T) {
	if os.Getenv("C38_PROBEGEN") == "" {
		t.Skip("C38_PROBEGEN not set")
	}
	iplib.Quiet()
	r := lib.Start("C38")
	m := newMon(r)
	seen := map[string]int{}
	for kind := range features {
		for i := 0; i < 400; i++ {
			it := genItem(0, kind, int64(i), true, int64(i*7+1), nil)
			f := File{Name: "BUILD", Items: []Item{it}}
			res, _ := m.eval(f.Source(nil))
			if res.Err != "" {
				k := it.Tag + ": " + clipN(res.Err, 50)
				seen[k]++
				if seen[k] <= 1 {
					fmt.Printf("=== %s | %s\n%s", k, it.Variant, it.Src)
				}
			}
		}
	}
	os.RemoveAll(r.Scratch())
}

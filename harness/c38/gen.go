package c38

// Generator of BUILD-language files for C38. Ideas borrowed from C16's ProgGen (typed leaves, a
// fixed set of expression/statement shapes, programs that export their values through json()), but
// built for a different purpose: the property is about what the *formatter* does to surface syntax,
// so every file is a list of small independent items, each exercising one primary syntactic
// feature (named by its Tag) rendered either canonically or with layout noise (spacing, line
// breaks inside brackets, trailing commas, comments). Items only use their own names and the
// fixed preamble, so any subset of items is again a valid file; that is what attribution and
// witness minimisation rely on.

import (
	"fmt"
	"math/rand"
	"strings"
)

// Preamble is prepended to every file. It is written in the formatter's own canonical style.
const Preamble = `S = "s"
T = "t x"
N = 3
M = 10
B = True
L = ["b", "a", "c"]
LI = [3, 1, 2]
D = {"k": "v", "j": "w"}

def ident(x):
    return x

def kw(name = "", srcs = None, outs = None, deps = None, tools = None, data = None, visibility = None, tags = None, labels = None, cmd = "", a = None, b = None, z = None):
    return [name, srcs, outs, deps, tools, data, visibility, tags, labels, cmd, a, b, z]

`

// An Item is one independent group of top-level statements.
type Item struct {
	Tag       string   `json:"tag"`               // primary feature (witness-key component)
	Variant   string   `json:"variant,omitempty"` // further detail of the feature instance (not part of keys)
	Noise     []string `json:"noise,omitempty"`   // layout-noise kinds that were applied
	Src       string   `json:"src"`               // statement text, newline terminated
	Names     []string `json:"names,omitempty"`   // globals defined here whose values are exported
	Seed      int64    `json:"seed"`              // feature seed (re-render without noise)
	Kind      int      `json:"kind"`              // index into features
	Noisy     bool     `json:"noisy,omitempty"`
	NoiseSeed int64    `json:"noise_seed,omitempty"`
}

// A File is a generated BUILD / build_defs file.
type File struct {
	Name  string `json:"name"` // file name handed to the formatter
	Items []Item `json:"items"`
	CRLF  bool   `json:"crlf,omitempty"`
	NoEOL bool   `json:"no_final_newline,omitempty"`
}

// Source renders the file: preamble, the chosen items (nil = all), the export statement.
func (f File) Source(keep []int) string {
	var sb strings.Builder
	sb.WriteString(Preamble)
	var names []string
	add := func(it Item) {
		sb.WriteString(it.Src)
		names = append(names, it.Names...)
	}
	if keep == nil {
		for _, it := range f.Items {
			add(it)
		}
	} else {
		for _, i := range keep {
			add(f.Items[i])
		}
	}
	sb.WriteString("text_file(name = \"v\", content = json({")
	for i, n := range names {
		if i > 0 {
			sb.WriteString(", ")
		}
		fmt.Fprintf(&sb, "%q: %s", n, n)
	}
	sb.WriteString("}))")
	if !f.NoEOL {
		sb.WriteString("\n")
	}
	s := sb.String()
	if f.CRLF {
		s = strings.ReplaceAll(s, "\n", "\r\n")
	}
	return s
}

type gen struct {
	f     *rand.Rand // feature choices
	n     *rand.Rand // noise choices
	noisy bool
	idx   int // item index (unique names)
	used  map[string]bool
	off   map[string]bool // noise kinds switched off (witness minimisation)
	k     int
}

func (g *gen) pick(l []string) string { return l[g.f.Intn(len(l))] }
func (g *gen) fp(p float64) bool      { return g.f.Float64() < p }

// np reports a noise decision; always false when rendering canonically.
func (g *gen) np(p float64, kind string) bool {
	if !g.noisy {
		return false
	}
	if g.n.Float64() < p && !g.off[kind] {
		g.used[kind] = true
		return true
	}
	return false
}

func (g *gen) name() string {
	g.k++
	return fmt.Sprintf("v%d_%d", g.idx, g.k)
}

// ---- layout noise ----------------------------------------------------------------------------

var commentPool = []string{"# c", "#c", "#  spaced  ", "# do stuff", "# \"quoted\"", "# it's", "# a \\ b", "# é", "#", "# x = [1,", "# keep going"}

func (g *gen) comment() string { return commentPool[g.n.Intn(len(commentPool))] }

// eq renders the "=" of a keyword argument / default value.
func (g *gen) eq() string {
	if g.np(0.3, "kw-spacing") {
		return []string{"=", " =", "= ", "  =  "}[g.n.Intn(4)]
	}
	return " = "
}

func (g *gen) comma() string {
	if g.np(0.15, "comma-spacing") {
		return []string{",", " , ", ",  "}[g.n.Intn(3)]
	}
	return ", "
}

// op renders a binary operator with surrounding space.
func (g *gen) op(o string) string {
	if g.np(0.15, "op-spacing") && o != "in" && o != "not in" && o != "is" && o != "is not" && o != "and" && o != "or" && o != "if" && o != "else" && o != "-" {
		return []string{o, "  " + o + " ", " " + o + "  "}[g.n.Intn(3)]
	}
	return " " + o + " "
}

// seq renders a bracketed sequence: canonical "[a, b]" or a noisy multi-line layout.
func (g *gen) seq(open string, elems []string, close string, ind int) string {
	if len(elems) == 0 {
		if g.np(0.1, "space-in-empty-brackets") {
			return open + " " + close
		}
		return open + close
	}
	if !g.np(0.45, "multiline-seq") {
		s := open
		if g.np(0.1, "space-inside-brackets") {
			s += " "
		}
		for i, e := range elems {
			if i > 0 {
				s += g.comma()
			}
			s += e
		}
		if g.np(0.15, "trailing-comma-oneline") && !(open == "(" && len(elems) == 1) {
			s += ","
		}
		return s + close
	}
	pad := strings.Repeat(" ", ind+4)
	if g.np(0.2, "odd-indent") {
		pad = strings.Repeat(" ", ind+[]int{1, 2, 6, 8}[g.n.Intn(4)])
	}
	var sb strings.Builder
	sb.WriteString(open)
	first := true
	if g.np(0.25, "first-elem-on-open-line") {
		first = false
		sb.WriteString(elems[0])
		if len(elems) > 1 {
			sb.WriteString(",")
		}
		elems = elems[1:]
	}
	sb.WriteString("\n")
	for i, e := range elems {
		if g.np(0.12, "comment-line-in-seq") {
			sb.WriteString(pad + g.comment() + "\n")
		}
		if g.np(0.06, "blank-line-in-seq") {
			sb.WriteString("\n")
		}
		sb.WriteString(pad + e)
		last := i == len(elems)-1
		if !last || !g.np(0.3, "no-trailing-comma") {
			sb.WriteString(",")
		}
		if g.np(0.12, "suffix-comment-in-seq") {
			sb.WriteString("  " + g.comment())
		}
		sb.WriteString("\n")
	}
	_ = first
	if g.np(0.08, "comment-before-close") {
		sb.WriteString(pad + g.comment() + "\n")
	}
	if g.np(0.2, "close-bracket-indented") {
		sb.WriteString(pad + close)
	} else {
		sb.WriteString(strings.Repeat(" ", ind) + close)
	}
	return sb.String()
}

func (g *gen) call(fn string, args []string, ind int) string {
	return fn + g.seq("(", args, ")", ind)
}

func (g *gen) kwarg(k, v string) string { return k + g.eq() + v }

// stmtLead renders what may precede a statement at the given indentation: blank lines, comments.
func (g *gen) stmtLead(ind int) string {
	s := ""
	if g.np(0.1, "extra-blank-lines") {
		s += strings.Repeat("\n", 1+g.n.Intn(3))
	}
	if g.np(0.15, "comment-before-stmt") {
		s += strings.Repeat(" ", ind) + g.comment() + "\n"
		if g.np(0.3, "comment-block-detached") {
			s += "\n"
		}
	}
	return s
}

// eol renders the end of a simple statement.
func (g *gen) eol() string {
	s := ""
	if g.np(0.12, "suffix-comment") {
		s = strings.Repeat(" ", 1+g.n.Intn(3)) + g.comment()
	} else if g.np(0.05, "trailing-spaces") {
		s = "  "
	}
	return s + "\n"
}

func (g *gen) assign(name, expr string) string {
	eq := " = "
	if g.np(0.15, "assign-spacing") {
		eq = []string{"=", " =  ", "  = "}[g.n.Intn(3)]
	}
	return g.stmtLead(0) + name + eq + expr + g.eol()
}

// ---- leaves ----------------------------------------------------------------------------------

var (
	strAtoms  = []string{`"a"`, `"b c"`, `"x.y"`, "S", "T", `"//p:q"`, `""`}
	intAtoms  = []string{"0", "1", "2", "7", "N", "M", "42"}
	boolAtoms = []string{"True", "False", "B", "not B"}
	fileNames = []string{"b.txt", "a.txt", "c.go", "a.go", "z.py", "B.txt", "a_1.c", "a.b.c"}
	labelPool = []string{":x", ":a", "//p:p", "//p/q:q", "//p/q:r", "//p:q", "//a", "//b/c", "@r//:r", "@r//p:p", "///r//p:p", "PUBLIC", "//p/...", "//z:z"}
)

func (g *gen) strE(d int) string {
	if d <= 0 || g.fp(0.3) {
		return g.pick(strAtoms)
	}
	switch g.f.Intn(9) {
	case 0:
		return g.strE(d-1) + g.op("+") + g.strE(d-1)
	case 1:
		return `"%s-%s"` + g.op("%") + g.seq("(", []string{g.strE(d - 1), g.intE(d - 1)}, ")", 0)
	case 2:
		return g.pick([]string{`","`, `" "`, `"-"`}) + ".join" + g.seq("(", []string{g.listSE(d - 1)}, ")", 0)
	case 3:
		return g.pick([]string{"S", "T"}) + g.pick([]string{".upper()", ".replace(\"s\", \"zz\")", ".strip()", "[0]", "[1:]", "[:1]", "[-1]"})
	case 4:
		return g.strE(d-1) + g.op("if") + g.boolE(d-1) + g.op("else") + g.strE(d-1)
	case 5:
		return "(" + g.strE(d-1) + g.op("+") + g.strE(d-1) + ")" + g.op("*") + g.pick([]string{"2", "N"})
	case 6:
		return "D[" + g.pick([]string{`"k"`, `"j"`}) + "]"
	case 7:
		return g.call("ident", []string{g.strE(d - 1)}, 0)
	default:
		return "str" + g.seq("(", []string{g.intE(d - 1)}, ")", 0)
	}
}

func (g *gen) intE(d int) string {
	if d <= 0 || g.fp(0.3) {
		return g.pick(intAtoms)
	}
	switch g.f.Intn(9) {
	case 0:
		return g.intE(d-1) + g.op("+") + g.intE(d-1)
	case 1:
		return g.intE(d-1) + g.op("*") + g.intE(d-1)
	case 2:
		return "(" + g.intE(d-1) + g.op("+") + g.intE(d-1) + ")" + g.op("*") + g.intE(d-1)
	case 3:
		return g.intE(d-1) + g.op("-") + "(" + g.intE(d-1) + g.op("-") + g.intE(d-1) + ")"
	case 4:
		return "len" + g.seq("(", []string{g.listSE(d - 1)}, ")", 0)
	case 5:
		return g.intE(d-1) + g.op("//") + g.pick([]string{"2", "3", "N"})
	case 6:
		return g.intE(d-1) + g.op("%") + g.pick([]string{"2", "3", "7"})
	case 7:
		return g.intE(d-1) + g.op("if") + g.boolE(d-1) + g.op("else") + g.intE(d-1)
	default:
		return "LI[" + g.pick([]string{"0", "1", "-1"}) + "]"
	}
}

func (g *gen) boolE(d int) string {
	if d <= 0 || g.fp(0.25) {
		return g.pick(boolAtoms)
	}
	switch g.f.Intn(10) {
	case 0:
		return g.intE(d-1) + g.op(g.pick([]string{"<", "<=", ">", ">=", "==", "!="})) + g.intE(d-1)
	case 1:
		return g.strE(d-1) + g.op(g.pick([]string{"==", "!="})) + g.strE(d-1)
	case 2:
		return g.strE(d-1) + g.op(g.pick([]string{"in", "not in"})) + g.listSE(d-1)
	case 3:
		return g.boolE(d-1) + g.op("and") + g.boolE(d-1)
	case 4:
		return g.boolE(d-1) + g.op("or") + g.boolE(d-1)
	case 5:
		return "not (" + g.boolE(d-1) + ")"
	case 6:
		return "(" + g.boolE(d-1) + g.op("or") + g.boolE(d-1) + ")" + g.op("and") + g.boolE(d-1)
	case 7:
		return g.pick([]string{"S", "N", "L", "None"}) + g.op(g.pick([]string{"is", "is not"})) + "None"
	case 8:
		return g.pick([]string{`"k"`, `"zz"`}) + g.op(g.pick([]string{"in", "not in"})) + "D"
	default:
		return "not " + g.pick([]string{"S", "L", "N", `""`, "[]"})
	}
}

func (g *gen) listSE(d int) string {
	if d <= 0 || g.fp(0.2) {
		return g.pick([]string{"L", `["x"]`, `[]`, `["b", "a"]`})
	}
	switch g.f.Intn(7) {
	case 0:
		n := 1 + g.f.Intn(4)
		el := make([]string, n)
		for i := range el {
			el[i] = g.strE(d - 1)
		}
		return g.seq("[", el, "]", 0)
	case 1:
		return g.listSE(d-1) + g.op("+") + g.listSE(d-1)
	case 2:
		return "[" + g.strE(d-1) + g.op("+") + "x for x in " + g.listSE(d-1) + "]"
	case 3:
		return "[x for x in " + g.listSE(d-1) + " if x" + g.op("!=") + g.strE(d-1) + "]"
	case 4:
		return "sorted" + g.seq("(", []string{g.listSE(d - 1)}, ")", 0)
	case 5:
		return "L" + g.pick([]string{"[1:]", "[:2]", "[:]", "[1:2]"})
	default:
		return g.pick([]string{"T", `"a,b"`}) + ".split" + g.seq("(", []string{g.pick([]string{`" "`, `","`})}, ")", 0)
	}
}

func (g *gen) dictE(d int) string {
	if d <= 0 || g.fp(0.25) {
		return g.pick([]string{"D", "{}", `{"a": "b"}`})
	}
	switch g.f.Intn(4) {
	case 0:
		n := 1 + g.f.Intn(3)
		el := make([]string, n)
		for i := range el {
			sep := " "
			if g.np(0.2, "dict-colon-spacing") {
				sep = []string{"", "  "}[g.n.Intn(2)]
			}
			el[i] = fmt.Sprintf("\"k%d\":", i) + sep + g.strE(d-1)
		}
		return g.seq("{", el, "}", 0)
	case 1:
		return g.dictE(d-1) + g.op("|") + g.dictE(d-1)
	case 2:
		return "{x: x" + g.op("+") + g.strE(d-1) + " for x in " + g.listSE(d-1) + "}"
	default:
		return "{k: v for k, v in D.items() if k" + g.op("!=") + `"j"}`
	}
}

func (g *gen) anyE(d int) string {
	switch g.f.Intn(6) {
	case 0:
		return g.intE(d)
	case 1:
		return g.boolE(d)
	case 2:
		return g.listSE(d)
	case 3:
		return g.dictE(d)
	default:
		return g.strE(d)
	}
}

// ---- string literals -------------------------------------------------------------------------

type strContent struct{ class, text string }

// contents that are valid between either kind of single-line quote unless stated by needs.
var strContents = []strContent{
	{"plain", "abc"}, {"plain", "a b"}, {"plain", "x/y.z"}, {"empty", ""},
	{"esc-n", `a\nb`}, {"esc-t", `a\tb`}, {"esc-backslash", `a\\b`}, {"esc-backslash", `\\`},
	{"unknown-escape", `a\db`}, {"unknown-escape", `\.go$`}, {"unknown-escape", `\$x`}, {"unknown-escape", `\(a\|b\)`}, {"unknown-escape", `a\ b`},
	{"hex-escape", `\x41`}, {"hex-escape", `a\x1b[0m`}, {"octal-escape", `\101`}, {"octal-escape", `\0`}, {"octal-escape", `\033[1m`},
	{"cr-escape", `a\rb`}, {"ctrl-escape", `\a`}, {"ctrl-escape", `\b`}, {"ctrl-escape", `\f`}, {"ctrl-escape", `\v`},
	{"unicode-escape", `\u00e9`}, {"unicode-escape", `\U0001F600`}, {"named-escape", `\N{DASH}`},
	{"non-ascii", "é"}, {"non-ascii", "日本"}, {"non-ascii", "a→b"},
	{"braces", "a{b}c"}, {"braces", "${S}"}, {"braces", "{{x}}"}, {"percent", "100%"}, {"percent", "%s"},
	{"dollar", "$SRCS $(location :x)"}, {"hash", "a # not a comment"},
	{"tab-char", "a\tb"},
	{"unknown-escape-and-hex-escape", `\d\x41`}, {"unknown-escape-and-non-ascii", `\.é`}, {"unknown-escape-and-octal-escape", `\d\101`},
}

func (g *gen) strLiteral() (src, tag string) {
	c := strContents[g.f.Intn(len(strContents))]
	text, class := c.text, c.class
	// quote content
	variant := "no-quotes-inside"
	switch g.f.Intn(5) {
	case 0:
		text, variant = "it's "+text, "sq-inside"
	case 1:
		text, variant = `say "hi" `+text, "dq-inside"
	case 2:
		if g.fp(0.3) {
			text, variant = `'a' "b" `+text, "sq-and-dq-inside"
		}
	}
	prefix := ""
	if g.fp(0.2) {
		prefix = "r"
	}
	q := g.pick([]string{`"`, `'`, `"`, `'`, `"""`, `'''`})
	qn := map[string]string{`"`: "dq", `'`: "sq", `"""`: "tdq", `'''`: "tsq"}[q]
	esc := func(s string) string {
		if len(q) == 1 {
			if prefix == "r" {
				// a raw string cannot contain its own quote except behind a backslash that stays
				return strings.ReplaceAll(s, q, "")
			}
			return strings.ReplaceAll(s, q, `\`+q)
		}
		return s
	}
	if len(q) == 3 {
		switch g.f.Intn(5) {
		case 0:
			text, class = text+"\nsecond line\n", class+"+newlines"
		case 1:
			text, class = "\n    indented "+text+"\n      more\n", class+"+indented-lines"
		case 2:
			text, class = text+"\\\ncontinued", class+"+backslash-newline"
		case 3:
			text, class = text+"  \ntrailing spaces above", class+"+trailing-space-line"
		}
		if strings.HasSuffix(text, q[:1]) {
			text += " "
		}
		text = strings.ReplaceAll(text, q, q[:1]+" "+q[:1]+q[:1])
	}
	if prefix == "r" && (len(text)-len(strings.TrimRight(text, "\\")))%2 == 1 {
		text += "x" // a raw string cannot end in an odd number of backslashes
	}
	// Escapes that Python-style unquoting interprets but asp keeps literally, and bytes outside ASCII,
	// are one family each whatever the quotes (the quote style decides whether fmt re-quotes at all).
	for _, fam := range []string{"hex-escape", "octal-escape", "unicode-escape", "non-ascii"} {
		if strings.Contains(class, fam) && prefix == "" {
			return prefix + q + esc(text) + q, "str/python-only-content/" + fam + "|" + qn + "/" + class + "/" + variant
		}
	}
	return prefix + q + esc(text) + q, "str/" + prefix + qn + "/" + class + "|" + variant
}

var fstrContents = []strContent{
	{"var", "{S}"}, {"vars", "{S}-{T}"}, {"var-at-end", "a {S}"}, {"var-at-start", "{T} z"}, {"int-var", "n={N}"},
	{"escaped-braces", "{{x}} {S}"}, {"escaped-braces", "{S} {{}}"}, {"dollar-brace", "${S} {T}"}, {"no-vars", "plain"},
	{"esc-n", `{S}\n`}, {"unknown-escape", `{S}\d`}, {"hex-escape", `{S}\x41`}, {"non-ascii", "{S}é"}, {"esc-backslash", `{S}\\{T}`},
	{"percent", "{S}%s"},
}

func (g *gen) fstrLiteral() (src, tag string) {
	c := fstrContents[g.f.Intn(len(fstrContents))]
	text, class := c.text, c.class
	variant := "no-quotes-inside"
	switch g.f.Intn(5) {
	case 0:
		text, variant = "it's "+text, "sq-inside"
	case 1:
		text, variant = `say "hi" `+text, "dq-inside"
	}
	q := g.pick([]string{`"`, `'`, `"`, `'`, `"""`, `'''`})
	qn := map[string]string{`"`: "dq", `'`: "sq", `"""`: "tdq", `'''`: "tsq"}[q]
	if len(q) == 1 {
		text = strings.ReplaceAll(text, q, `\`+q)
	} else {
		if g.fp(0.4) {
			text, class = text+"\nline {T}\n", class+"+newlines"
		}
		text = strings.ReplaceAll(text, q, q[:1]+" ")
		if strings.HasSuffix(text, q[:1]) {
			text += " "
		}
	}
	return "f" + q + text + q, "fstr/" + qn + "/" + class + "|" + variant
}

// ---- features --------------------------------------------------------------------------------

type feature func(g *gen) (tag, src string, names []string)

func (g *gen) oneAssign(tag, expr string) (string, string, []string) {
	n := g.name()
	return tag, g.assign(n, expr), []string{n}
}

var sortableArgs = []string{"srcs", "outs", "deps", "tools", "data", "visibility", "tags"}

// Argument names that the stock buildifier tables (please-build/buildtools/tables) treat as
// sortable string lists / as labels; "labels", "a", "requires", ... are controls outside the tables.
var (
	stockSortable = map[string]bool{"srcs": true, "outs": true, "deps": true, "tools": true, "data": true, "visibility": true, "tags": true}
	stockLabelArg = map[string]bool{"srcs": true, "deps": true, "tools": true, "data": true, "visibility": true}
)

func (g *gen) strList(pool []string, how string) []string {
	var l []string
	switch how {
	case "unsorted":
		l = []string{pool[1], pool[0], pool[2]}
		if l[0] < l[1] {
			l[0], l[1] = l[1], l[0]
		}
	case "duplicate":
		l = []string{pool[0], pool[1], pool[0]}
		if l[0] > l[1] {
			l = []string{pool[1], pool[0], pool[1]}
		}
	case "sorted":
		l = []string{pool[0], pool[1], pool[2]}
		sortStrings(l)
	case "single":
		l = []string{pool[0]}
	}
	out := make([]string, len(l))
	for i, s := range l {
		out[i] = `"` + s + `"`
	}
	return out
}

func shuffled(g *gen, l []string) []string {
	out := append([]string(nil), l...)
	g.f.Shuffle(len(out), func(i, j int) { out[i], out[j] = out[j], out[i] })
	return out
}

var features = []feature{
	// 0: string literal forms
	func(g *gen) (string, string, []string) {
		s, tag := g.strLiteral()
		return g.oneAssign(tag, s)
	},
	// 1: f-strings
	func(g *gen) (string, string, []string) {
		s, tag := g.fstrLiteral()
		return g.oneAssign(tag, s)
	},
	// 2: adjacent-literal concatenation
	func(g *gen) (string, string, []string) {
		n := 2 + g.f.Intn(2)
		parts := make([]string, n)
		kinds := make([]string, n)
		for i := range parts {
			switch x := g.f.Intn(10); {
			case x < 5:
				parts[i], kinds[i] = g.pick([]string{`"ab"`, `'cd'`, `"e f"`, `'g\n'`, `""`}), "plain"
			case x < 7:
				parts[i], kinds[i] = g.pick([]string{`f"{S}"`, `f'<{T}>'`, `f"{S}.{N}"`}), "f"
			case x < 8:
				parts[i], kinds[i] = g.pick([]string{`r"\d"`, `r'\n'`}), "raw"
			case x < 9:
				parts[i], kinds[i] = g.pick([]string{`"""tri"""`, `'''ple'''`}), "triple"
			default:
				parts[i], kinds[i] = `f"no vars"`, "f-novars"
				if i > 0 {
					// a variable-free f-string after another literal crashes asp's concatenation (known C19 finding)
					parts[i], kinds[i] = `"nv"`, "plain"
				}
			}
		}
		where := g.pick([]string{"toplevel", "parens", "parens-multiline", "list-elem", "call-arg", "dict-value", "binop-operand", "aug-assign", "return", "call-arg-multiline"})
		sepSame := " "
		if g.noisy && g.n.Intn(3) == 0 {
			sepSame = "  "
		}
		var e string
		switch where {
		case "toplevel":
			e = strings.Join(parts, sepSame)
		case "parens":
			e = "(" + strings.Join(parts, sepSame) + ")"
		case "parens-multiline":
			e = "(\n    " + strings.Join(parts, "\n    ") + "\n)"
		case "list-elem":
			e = "[" + strings.Join(parts, "\n     ") + ", \"z\"]"
		case "call-arg":
			e = "ident(" + strings.Join(parts, sepSame) + ")"
		case "dict-value":
			e = "{\"k\": " + strings.Join(parts, "\n          ") + "}"
		case "binop-operand":
			e = strings.Join(parts, sepSame) + " + S"
		case "call-arg-multiline":
			e = "ident(\n    " + strings.Join(parts, "\n    ") + ",\n)"
		}
		variant := "|" + where + "/" + strings.Join(kinds, "+")
		switch where {
		case "aug-assign":
			n := g.name()
			return "strcat/outside-brackets" + variant, g.stmtLead(0) + n + " = \"x\"\n" + n + " += " + strings.Join(parts, sepSame) + g.eol(), []string{n}
		case "return":
			n := g.name()
			return "strcat/outside-brackets" + variant, g.stmtLead(0) + "def f" + n + "():\n    return " + strings.Join(parts, sepSame) + "\n" + g.assign(n, "f"+n+"()"), []string{n}
		case "toplevel", "binop-operand":
			return g.oneAssign("strcat/outside-brackets"+variant, e)
		}
		return g.oneAssign("strcat/inside-brackets"+variant, e)
	},
	// 3: integer literal forms
	func(g *gen) (string, string, []string) {
		forms := [][2]string{{"zero", "0"}, {"decimal", "644"}, {"negative", "-7"}, {"octal-0o", "0o755"}, {"leading-zero", "0755"}, {"leading-zero", "007"}, {"large", "123456789012"}, {"negative-spaced", "- 7"}, {"double-negative", "-(-7)"}}
		f := forms[g.f.Intn(len(forms))]
		return g.oneAssign("int/"+f[0], f[1])
	},
	// 4: operators, precedence and parentheses
	func(g *gen) (string, string, []string) {
		forms := [][2]string{
			{"redundant-parens-atom", "(N)"}, {"redundant-parens-nested", "((N + 1))"}, {"redundant-parens-str", `("a")`}, {"redundant-parens-call", "(len(L))"},
			{"redundant-parens-list", "([1, 2])"}, {"parens-needed", "(N + 1) * 2"}, {"parens-right-assoc", "M - (N - 1)"}, {"parens-is", "((S is not None))"},
			{"parens-around-cond", "(1 if B else 2) + 1"}, {"cond-chain", "1 if N > 5 else 2 if N > 2 else 3"}, {"cond-in-parens-else", "1 if B else (2 if N else 3)"},
			{"not-parens", "not (B and N > 2)"}, {"not-in", `"a" not in L`}, {"not-in-parens", `not ("a" in L)`}, {"neg-paren", "-(N + 1)"}, {"neg-name", "-N + M"},
			{"minus-negative", "M - -1"}, {"mixed-bool", "B or N > 5 and not S"}, {"compare-eq-list", `L == ["b", "a", "c"]`},
			{"percent-tuple", `"%s=%s" % (S, N)`}, {"percent-single", `"<%s>" % S`}, {"mul-str", `"ab" * 3`}, {"union", `D | {"z": "y"}`}, {"union-chain", `{"a": "1"} | D | {"k": "2"}`},
			{"floordiv-mod", "M // 3 % 2"}, {"parens-multiline-plus", "(\"a\" +\n     \"b\" +\n     S)"}, {"list-plus-multiline", "[\"a\"] + [\n    \"b\",\n] + L"},
			{"index-of-call", "sorted(L)[0]"}, {"slice-str", "T[1:3]"}, {"method-chain", `T.replace("t", "u").upper().split(" ")`},
			{"method-chain-multiline", "(T.replace(\"t\", \"u\")\n    .upper()\n    .strip())"}, {"lambda-call", "(lambda x: x + 1)(N)"}, {"lambda-default", "(lambda x, y = 2: x * y)(N)"},
			{"and-or-value", `S and T or "z"`}, {"is-not-then-or", "N is not None or B"}, {"is-not-then-and", "S is not None and not B"}, {"is-not-then-or-chain", "None is not None or not S or B"},
			{"is-then-or", "N is None or B"}, {"not-in-then-and", `"a" not in L and B`}, {"is-not-in-cond", "1 if N is not None and B else 2"}, {"is-not-in-list", "[N is not None or B]"}, {"in-dict", `"k" in D`}, {"is-none", "None is None"}, {"tuple-single", "(N,)"}, {"tuple-empty", "()"}, {"tuple-pair-parens", "(N, M)"},
			{"list-of-tuples", "[(1, 2), (3, 4)]"}, {"nested-empty", "[[], {}, ()]"}, {"call-multiline-args", "ident(\n    N\n)"}, {"cond-multiline", "(N if B\n    else M)"},
		}
		f := forms[g.f.Intn(len(forms))]
		return g.oneAssign("expr/"+f[0], f[1])
	},
	// 5: random typed expression with layout noise
	func(g *gen) (string, string, []string) {
		return g.oneAssign("expr/random", g.anyE(3))
	},
	// 6: list / dict / tuple literal layouts
	func(g *gen) (string, string, []string) {
		n := g.f.Intn(5)
		el := make([]string, n)
		kind := g.pick([]string{"list", "dict", "tuple", "nested-list"})
		for i := range el {
			switch kind {
			case "dict":
				el[i] = fmt.Sprintf("\"k%d\": %s", i, g.strE(1))
			case "nested-list":
				el[i] = g.seq("[", []string{g.strE(1), g.strE(0)}, "]", 4)
			default:
				el[i] = g.strE(1)
			}
		}
		o, c := "[", "]"
		if kind == "dict" {
			o, c = "{", "}"
		}
		if kind == "tuple" {
			o, c = "(", ")"
		}
		long := ""
		if g.fp(0.25) {
			// long single-line literals make the printer choose its own line breaks
			for i := 0; i < 14; i++ {
				if kind == "dict" {
					el = append(el, fmt.Sprintf("\"long_key_number_%d\": \"value %d\"", i, i))
				} else if kind != "nested-list" {
					el = append(el, fmt.Sprintf("\"element-number-%d\"", i))
				}
			}
			long = "+long"
		}
		if kind == "tuple" && len(el) == 1 {
			return g.oneAssign("literal/tuple-single", "("+el[0]+",)")
		}
		return g.oneAssign("literal/"+kind+long, g.seq(o, el, c, 0))
	},
	// 7: comprehensions
	func(g *gen) (string, string, []string) {
		forms := [][2]string{
			{"list", "[x + \"!\" for x in L]"}, {"list-if", "[x for x in L if x != \"a\"]"}, {"list-two-for", "[x + y for x in L for y in [\"1\", \"2\"]]"},
			{"list-two-for-if", "[x + y for x in L for y in L if x < y]"}, {"list-unpack", "[k + v for k, v in D.items()]"}, {"dict", "{x: len(x) for x in L}"},
			{"dict-if", "{k: v for k, v in D.items() if v != \"w\"}"}, {"nested", "[[y * 2 for y in LI] for x in L]"}, {"cond-elt", "[x if x != \"a\" else \"A\" for x in L]"},
			{"list-multiline", "[\n    x\n    for x in L\n    if x\n]"}, {"dict-multiline", "{\n    k: v\n    for k, v in D.items()\n}"}, {"list-multiline-comment", "[\n    x  # elt\n    for x in L  # loop\n]"},
			{"enumerate", "[str(i) + x for i, x in enumerate(L)]"}, {"range", "[i * i for i in range(4)]"}, {"zip-free-sorted", "sorted([x for x in L])"},
		}
		f := forms[g.f.Intn(len(forms))]
		return g.oneAssign("comprehension/"+f[0], f[1])
	},
	// 8: calls of a user function: keyword order, long argument lists
	func(g *gen) (string, string, []string) {
		keys := shuffled(g, []string{"name", "srcs", "outs", "deps", "visibility", "cmd", "a", "b", "z", "labels", "tools"})[:2+g.f.Intn(6)]
		args := make([]string, len(keys))
		for i, k := range keys {
			v := g.strE(1)
			if k != "name" && k != "cmd" && g.fp(0.5) {
				v = `["only"]`
			}
			args[i] = g.kwarg(k, v)
		}
		tag := "call/kwarg-order"
		if g.fp(0.3) {
			args = append([]string{g.strE(1)}, args...)
			for i, a := range args {
				if strings.HasPrefix(a, "name") {
					args = append(args[:i], args[i+1:]...)
					break
				}
			}
			tag = "call/positional-then-kwargs"
		}
		if g.fp(0.25) {
			args = append(args, g.kwarg("z", `"`+strings.Repeat("long argument value ", 6)+`"`))
			for i, a := range args[:len(args)-1] {
				if strings.HasPrefix(a, "z") {
					args = append(args[:i], args[i+1:]...)
					break
				}
			}
			tag += "+long"
		}
		return g.oneAssign(tag, g.call("kw", args, 0))
	},
	// 9: string lists in sortable-named arguments of a user function
	func(g *gen) (string, string, []string) {
		arg := g.pick(append(sortableArgs, "labels", "a"))
		how := g.pick([]string{"unsorted", "duplicate", "sorted", "single"})
		pool := shuffled(g, fileNames)
		if arg == "deps" || arg == "visibility" || arg == "tools" {
			pool = shuffled(g, []string{":x", ":a", "//p:q", "//b/c:d", "//a:b"})
		}
		l := g.strList(pool, how)
		cls := arg
		if stockSortable[arg] {
			cls = "stock-sortable-arg"
		}
		return g.oneAssign("call-list/"+cls+"|"+arg+"/"+how, g.call("kw", []string{g.kwarg("name", `"n"`), g.kwarg(arg, g.seq("[", l, "]", 4))}, 0))
	},
	// 10: label-shaped strings in label-named arguments of a user function
	func(g *gen) (string, string, []string) {
		arg := g.pick([]string{"deps", "srcs", "tools", "data", "visibility", "a", "labels"})
		forms := [][2]string{{"pkg-eq-name", `"//p/q:q"`}, {"pkg-eq-name-root", `"//p:p"`}, {"repo-eq-name", `"@r//:r"`}, {"local", `":x"`}, {"plain", `"//p:q"`},
			{"joined", `"//p/q" + ":r"`}, {"joined-eq", `"//p" + ":p"`}, {"subrepo-eq-name", `"///r//p:p"`}, {"not-a-label", `"p:p"`}}
		f := forms[g.f.Intn(len(forms))]
		v := f[1]
		shape := "scalar"
		if g.fp(0.6) {
			v, shape = g.seq("[", []string{f[1]}, "]", 4), "list"
		}
		cls := arg
		if stockLabelArg[arg] {
			cls = "stock-label-arg"
		}
		fam := map[string]string{"pkg-eq-name-root": "pkg-eq-name", "joined-eq": "pkg-eq-name", "subrepo-eq-name": "pkg-eq-name"}[f[0]]
		if fam == "" {
			fam = f[0]
		}
		return g.oneAssign("call-label/"+cls+"/"+fam+"|"+f[0]+"/"+arg+"/"+shape, g.call("kw", []string{g.kwarg("name", `"n"`), g.kwarg(arg, v)}, 0))
	},
	// 11: function definitions: annotations, aliases, defaults, docstrings
	func(g *gen) (string, string, []string) {
		fn := "f" + g.name()
		forms := [][3]string{
			{"plain", "a, b", `fn("x", "y")`}, {"defaults", `a, b = "d"`, `fn("x")`}, {"typed", "a:str, b:int", `fn("x", 2)`}, {"typed-spaced", "a: str, b: int = 3", `fn("x")`},
			{"union", "a:str|list, b:int|str=1", `fn(["x"])`}, {"union-spaced", "a: str | list, b: int | str = 1", `fn("x", "y")`}, {"alias", "a:str&aa, b:int&bb&bbb=2", `fn(aa = "x", bbb = 5)`},
			{"alias-spaced", "a: str & aa, b: int & bb = 2", `fn(aa = "x", bb = 5)`}, {"alias-untyped", "a&aa, b&bb=2", `fn(aa = "x")`}, {"bool-default", "a:bool=False, b:list=[]", `fn(True)`},
			{"dict-default", `a:dict={"k": "v"}, b:str=None`, `fn()`}, {"return-type", "a:int", `fn(2)`}, {"many-params", "a, b = 1, c = 2, d = 3, e = 4, f = 5, g = 6, h = 7, i = 8, j = 9, k = 10, l = 11, m = 12, n = 13, o = 14", `fn(0, o = 15)`},
			{"multiline-params", "a,\n        b = 2,\n        ", `fn(1)`}, {"trailing-comma", "a, b = 2,", `fn(1)`}, {"function-type", "a:function", `fn(ident)`}, {"config-type", "a:config=CONFIG, b:str=\"x\"", `fn()`},
		}
		f := forms[g.f.Intn(len(forms))]
		ret := ""
		if f[0] == "return-type" {
			ret = " -> int"
		}
		doc := ""
		tag := "def/" + f[0]
		switch g.f.Intn(8) {
		case 0:
			doc, tag = "    \"\"\"Doc string.\"\"\"\n", "docstring/tdq-oneline|"+f[0]
		case 1:
			doc, tag = "    '''Single quoted\n\n    Args:\n      a: thing  \n         deeper\n    '''\n", "docstring/tsq-multiline|"+f[0]
		case 2:
			doc, tag = "    \"\"\"Doc with \\d and \\\\ and é\n  less indented\n    \"\"\"\n", "docstring/tdq-backslashes|"+f[0]
		case 3:
			doc, tag = "    \"plain string docstring\"\n", "docstring/dq|"+f[0]
		}
		body := "    return [a, " + g.pick([]string{"b", "b", "a"}) + "]\n"
		if strings.Contains(f[1], "a:function") {
			body = "    return a(3)\n"
		} else if strings.Contains(f[1], "a:config") {
			body = "    return b\n"
		} else if !strings.Contains(f[1], "b") {
			body = "    return a\n"
		}
		if g.fp(0.3) {
			body = "    " + g.pick([]string{"c = 1", "pass", "assert True, \"msg\"", "c = [\n        1,\n    ]"}) + g.eol() + body
		}
		n := g.name()
		src := g.stmtLead(0) + "def " + fn + "(" + f[1] + ")" + ret + ":" + g.eol() + doc + body + g.assign(n, strings.ReplaceAll(f[2], "fn(", fn+"("))
		return tag, src, []string{n}
	},
	// 12: if / elif / else, including else-if that the printer flattens
	func(g *gen) (string, string, []string) {
		n := g.name()
		forms := [][2]string{
			{"if", "if C1:\n    X = 1\n"}, {"if-else", "if C1:\n    X = 1\nelse:\n    X = 2\n"}, {"elif", "if C1:\n    X = 1\nelif C2:\n    X = 2\nelse:\n    X = 3\n"},
			{"else-if-nested", "if C1:\n    X = 1\nelse:\n    if C2:\n        X = 2\n    else:\n        X = 3\n"}, {"else-if-nested-more", "if C1:\n    X = 1\nelse:\n    if C2:\n        X = 2\n    X = X + 10\n"},
			{"nested-if", "if C1:\n    if C2:\n        X = 1\n    else:\n        X = 2\n"}, {"comment-before-else", "if C1:\n    X = 1\n# about the else\nelse:\n    X = 2\n"},
			{"comment-in-else", "if C1:\n    X = 1\nelse:  # why\n    # because\n    X = 2\n"}, {"comment-end-of-block", "if C1:\n    X = 1\n    # trailing in block\nX = X + 1\n"},
			{"blank-lines-in-block", "if C1:\n\n    X = 1\n\n\n    X = X + 1\n\nelse:\n\n    X = 5\n"}, {"else-if-comment", "if C1:\n    X = 1\nelse:\n    # note\n    if C2:\n        X = 2\n"},
			{"pass-block", "if C1:\n    pass\nelse:\n    X = 4\n"}, {"deep-indent", "if C1:\n        X = 1\nelse:\n  X = 2\n"},
		}
		f := forms[g.f.Intn(len(forms))]
		s := strings.ReplaceAll(f[1], "X", n)
		s = strings.ReplaceAll(s, "C1", g.boolE(1))
		s = strings.ReplaceAll(s, "C2", g.boolE(1))
		return "if/" + f[0], g.stmtLead(0) + n + " = 0\n" + s, []string{n}
	},
	// 13: for loops
	func(g *gen) (string, string, []string) {
		n := g.name()
		forms := [][2]string{
			{"simple", "for x in L:\n    X = X + [x]\n"}, {"unpack", "for k, v in D.items():\n    X = X + [k + v]\n"}, {"unpack-parens", "for i, x in enumerate(L):\n    X += [str(i) + x]\n"},
			{"break-continue", "for x in L:\n    if x == \"a\":\n        continue\n    if x == \"c\":\n        break\n    X += [x]\n"}, {"nested", "for x in L:\n    for y in LI:\n        X += [x + str(y)]\n"},
			{"range", "for i in range(3):\n    X += [i]\n"}, {"comment-body", "for x in L:  # loop\n    # body\n    X += [x]  # add\n    # done\n"}, {"literal-iter", "for x in [\n    \"p\",\n    \"q\",\n]:\n    X += [x]\n"},
			{"index-assign", "for x in L:\n    Y[x] = len(X)\n    X += [x]\n"},
		}
		f := forms[g.f.Intn(len(forms))]
		s := strings.ReplaceAll(f[1], "X", n)
		names := []string{n}
		pre := n + " = []\n"
		if strings.Contains(s, "Y[") {
			m := g.name()
			s = strings.ReplaceAll(s, "Y", m)
			pre += m + " = {}\n"
			names = append(names, m)
		}
		return "for/" + f[0], g.stmtLead(0) + pre + s, names
	},
	// 14: other simple statements
	func(g *gen) (string, string, []string) {
		n := g.name()
		forms := [][2]string{
			{"aug-assign", "X = 1\nX += 2\n"}, {"unpack", "X, X2 = [1, 2]\n"}, {"unpack-tuple", "X, X2 = (S, T)\n"}, {"index-assign", "X = {}\nX[\"a\"] = 1\nX[\"b\"] = X[\"a\"] + 1\n"},
			{"index-aug", "X = {\"a\": 1}\nX[\"a\"] += 4\n"}, {"assert", "assert N == 3, \"n is \" + str(N)\nX = 1\n"}, {"assert-parens", "assert (N == 3)\nX = 1\n"}, {"bare-string", "\"\"\"A file docstring.\"\"\"\nX = 1\n"},
			{"bare-string-sq", "'bare'\nX = 1\n"}, {"bare-call", "ident(1)\nX = 2\n"}, {"none-true-false", "X = [None, True, False]\n"},
			{"semicolon-free-multi", "X = 1\n\n\n\nX2 = 2\n"}, {"pass-toplevel", "pass\nX = 1\n"},
		}
		f := forms[g.f.Intn(len(forms))]
		names := []string{n}
		s := f[1]
		if strings.Contains(s, "X2") {
			m := g.name()
			s = strings.ReplaceAll(s, "X2", m)
			names = append(names, m)
		}
		s = strings.ReplaceAll(s, "X", n)
		return "stmt/" + f[0], g.stmtLead(0) + s, names
	},
	// 15: comments and blank lines between statements
	func(g *gen) (string, string, []string) {
		n := g.name()
		forms := [][2]string{
			{"block-comment", "# one\n# two\n\n# three\nX = 1\n"}, {"suffix", "X = 1  # one\n"}, {"suffix-no-space", "X = 1# one\n"}, {"comment-after-open", "X = [  # why\n    1,\n]\n"},
			{"comment-in-call", "X = ident(\n    # leading\n    1,  # trailing\n    # closing\n)\n"}, {"comment-in-dict", "X = {\n    # k\n    \"k\": 1,  # v\n}\n"}, {"comment-between-kv", "X = {\n    \"k\":  # key\n        1,\n}\n"},
			{"comment-in-binop", "X = (1 +  # one\n     2)\n"}, {"comment-in-def", "def fX():  # d\n    # body\n    return 1  # r\n    # end\n\n# after\nX = fX()\n"}, {"hash-in-string", "X = \"# not\" + '#also'\n"},
			{"comment-in-empty-list", "X = [\n    # nothing\n]\n"}, {"comment-in-args-kw", "X = kw(\n    name = \"n\",\n    # about srcs\n    srcs = [\"a\"],\n)\n"},
			{"comment-after-comma", "X = [1, # one\n     2]\n"}, {"shebang-like", "#!/not/a/shebang\nX = 1\n"}, {"comment-in-comprehension", "X = [\n    x  # e\n    # c\n    for x in L\n]\n"},
		}
		f := forms[g.f.Intn(len(forms))]
		return "comment/" + f[0], strings.ReplaceAll(f[1], "X", n), []string{n}
	},
	// 16: build targets with attributes in arbitrary keyword order
	func(g *gen) (string, string, []string) {
		tn := fmt.Sprintf("t%d_%d", g.idx, g.f.Intn(1000))
		rule := g.pick([]string{"build_rule", "genrule", "filegroup", "gentest", "text_file", "export_file"})
		var args []string
		add := func(k, v string) { args = append(args, g.kwarg(k, v)) }
		add("name", `"`+tn+`"`)
		switch rule {
		case "build_rule", "genrule":
			add("srcs", g.pick([]string{`["a.txt"]`, `["a.txt", "b.txt"]`, `{"x": ["a.txt"], "y": ["b.txt"]}`, `[":x"]`}))
			add("outs", strings.ReplaceAll(g.pick([]string{`["T.txt"]`, `["T.o1", "T.o2"]`, `{"p": ["T.p"], "q": ["T.q"]}`}), "T", tn))
			add("cmd", g.pick([]string{`"cat $SRCS > $OUT"`, `"echo '" + S + "' > \"$OUT\""`, `{"opt": "true", "dbg": "false"}`, `" && ".join(["a", "b"])`, "'echo \\'q\\' > $OUT'", `"""
        set -e
        echo "x" > $OUT
    """`}))
			if g.fp(0.5) {
				add("deps", `[":d1", "//p:q"]`)
			}
			if g.fp(0.4) {
				add("labels", `["z", "a"]`)
			}
			if g.fp(0.3) {
				add("tools", g.pick([]string{`["//t:t1"]`, `{"tool": ["//t:t1"]}`}))
			}
			if g.fp(0.3) {
				add("visibility", `["PUBLIC"]`)
			}
			if g.fp(0.3) {
				add("binary", "True")
			}
			if g.fp(0.2) {
				add("env", `{"B": "2", "A": "1"}`)
			}
			if g.fp(0.2) {
				add("test_only", "True")
			}
			if g.fp(0.2) {
				add("output_dirs", `["od"]`)
			}
			if g.fp(0.2) {
				add("requires", `["py", "go"]`)
			}
		case "filegroup":
			add("srcs", strings.ReplaceAll(g.pick([]string{`["T_a.txt"]`, `["T_a.txt", "T_b.txt"]`, `[":x"]`}), "T", tn))
			if g.fp(0.5) {
				add("deps", `[":d1"]`)
			}
			if g.fp(0.3) {
				add("visibility", `["//p/..."]`)
			}
			if g.fp(0.3) {
				add("labels", `["l2", "l1"]`)
			}
		case "gentest":
			add("test_cmd", `"true"`)
			add("data", g.pick([]string{`["a.txt"]`, `["a.txt", "d.txt"]`}))
			if g.fp(0.5) {
				add("deps", `[":d1"]`)
			}
			add("no_test_output", "True")
			if g.fp(0.3) {
				add("labels", `["slow"]`)
			}
		case "text_file":
			add("content", g.pick([]string{`"hello"`, `"a\nb"`, "S + T", `"""
line
"""`, `f"{S}!"`}))
			if g.fp(0.3) {
				add("out", `"`+tn+`.txt"`)
			}
		case "export_file":
			add("src", `"`+tn+`_a.txt"`)
			if g.fp(0.5) {
				add("visibility", `["PUBLIC"]`)
			}
		}
		head := args[:1]
		rest := shuffled(g, args[1:])
		if g.fp(0.3) {
			head, rest = nil, shuffled(g, args)
		}
		all := append(append([]string(nil), head...), rest...)
		layout := g.noisy
		s := ""
		if layout {
			s = g.call(rule, all, 0)
		} else {
			s = rule + "(\n    " + strings.Join(all, ",\n    ") + ",\n)"
		}
		return "target/" + rule, g.stmtLead(0) + s + g.eol(), nil
	},
	// 17: build targets whose string lists are not in sorted order / contain duplicates
	func(g *gen) (string, string, []string) {
		tn := fmt.Sprintf("t%d_%d", g.idx, g.f.Intn(1000))
		type ra struct{ rule, arg string }
		cands := []ra{{"build_rule", "srcs"}, {"build_rule", "outs"}, {"build_rule", "tools"}, {"build_rule", "deps"}, {"build_rule", "data"}, {"build_rule", "labels"}, {"build_rule", "visibility"},
			{"genrule", "srcs"}, {"genrule", "outs"}, {"genrule", "tools"}, {"genrule", "deps"}, {"filegroup", "srcs"}, {"filegroup", "deps"}, {"gentest", "data"}, {"gentest", "deps"}, {"build_rule", "requires"}, {"build_rule", "optional_outs"}}
		c := cands[g.f.Intn(len(cands))]
		how := g.pick([]string{"unsorted", "duplicate", "unsorted", "sorted"})
		pool := shuffled(g, fileNames)
		switch c.arg {
		case "deps", "tools", "visibility":
			pool = shuffled(g, []string{":x", ":a", "//p:q", "//b/c:d", "//a:b"})
		case "labels", "requires":
			pool = shuffled(g, []string{"zz", "aa", "mm", "go", "py"})
		}
		if c.rule == "filegroup" && c.arg == "srcs" {
			for i := range pool {
				pool[i] = tn + "_" + pool[i] // a filegroup outputs its sources: keep them unique per target
			}
		}
		if how == "duplicate" && (c.arg == "outs" || c.arg == "optional_outs") {
			how = "unsorted" // duplicate outputs are an error in Please
		}
		l := g.seq("[", g.strList(pool, how), "]", 4)
		if (c.arg == "deps" || c.arg == "visibility") && g.fp(0.3) {
			d := g.strList(pool, "duplicate")
			how = "duplicate-with-comment"
			l = "[\n        " + d[0] + ",\n        " + d[1] + ",\n        # again\n        " + d[2] + ",\n    ]"
		}
		args := []string{g.kwarg("name", `"`+tn+`"`)}
		switch c.rule {
		case "build_rule", "genrule":
			if c.arg != "srcs" {
				args = append(args, g.kwarg("srcs", `["s.txt"]`))
			}
			if c.arg != "outs" {
				args = append(args, g.kwarg("outs", `["`+tn+`.out"]`))
			}
			args = append(args, g.kwarg("cmd", `"cat $SRCS > $OUTS"`))
		case "filegroup":
		case "gentest":
			args = append(args, g.kwarg("test_cmd", `"true"`), g.kwarg("no_test_output", "True"))
		}
		args = append(args, g.kwarg(c.arg, l))
		s := c.rule + "(\n    " + strings.Join(args, ",\n    ") + ",\n)"
		return "target-list/" + c.arg + "|" + c.rule + "/" + how, g.stmtLead(0) + s + g.eol(), nil
	},
	// 18: labels in build targets
	func(g *gen) (string, string, []string) {
		tn := fmt.Sprintf("t%d_%d", g.idx, g.f.Intn(1000))
		arg := g.pick([]string{"deps", "srcs", "tools", "visibility", "data"})
		forms := [][2]string{{"pkg-eq-name", `"//p/q:q"`}, {"pkg-eq-name-root", `"//p:p"`}, {"local", `":x"`}, {"plain", `"//p:q"`}, {"joined", `"//p/q" + ":r"`}, {"joined-eq", `"//p" + ":p"`}}
		f := forms[g.f.Intn(len(forms))]
		v := f[1]
		if arg == "visibility" && !strings.HasPrefix(f[0], "pkg") {
			v = `"//p/..."`
		}
		args := []string{g.kwarg("name", `"`+tn+`"`), g.kwarg("outs", `["`+tn+`.out"]`), g.kwarg("cmd", `"true"`), g.kwarg(arg, "["+v+"]")}
		s := "build_rule(\n    " + strings.Join(args, ",\n    ") + ",\n)"
		return "target-label/" + f[0] + "|" + arg, g.stmtLead(0) + s + g.eol(), nil
	},
	// 19: consecutive subincludes
	func(g *gen) (string, string, []string) {
		n := g.name()
		d := func(i int) string { return fmt.Sprintf("\"//defs:d%d\"", i) }
		a, b, c := g.f.Intn(8), g.f.Intn(8), g.f.Intn(8)
		forms := [][2]string{
			{"single", "subinclude($A)\n"}, {"two", "subinclude($A)\nsubinclude($B)\n"}, {"three", "subinclude($A)\nsubinclude($B)\nsubinclude($C)\n"}, {"two-blank-between", "subinclude($A)\n\n\nsubinclude($B)\n"},
			{"two-comment-between", "subinclude($A)\n# then\nsubinclude($B)\n"}, {"two-suffix-comments", "subinclude($A)  # first\nsubinclude($B)  # second\n"}, {"stmt-between", "subinclude($A)\nq$N = SHARED\nsubinclude($B)\n"},
			{"multi-then-single", "subinclude($A, $B)\nsubinclude($C)\n"}, {"multiline-args", "subinclude(\n    $A,\n    $B,\n)\nsubinclude($C)\n"}, {"non-literal", "p$N = $A\nsubinclude(p$N)\nsubinclude($B)\n"},
			{"duplicate", "subinclude($A)\nsubinclude($A)\n"}, {"single-quoted", "subinclude('//defs:d1')\nsubinclude($B)\n"}, {"conflict-order", "subinclude(\"//defs:d3\")\nsubinclude(\"//defs:d2\")\n"},
			{"conflict-order-rev", "subinclude(\"//defs:d2\")\nsubinclude(\"//defs:d3\")\n"}, {"inside-if", "if B:\n    subinclude($A)\n    subinclude($B)\n"},
			{"many", "subinclude($A)\nsubinclude($B)\nsubinclude($C)\nsubinclude(\"//defs:d0\")\nsubinclude(\"//defs:d1\")\nsubinclude(\"//defs:d2\")\nsubinclude(\"//defs:d3\")\n"},
			{"use-between", "subinclude($A)\nq$N = SHARED\n\nsubinclude($B)\nr$N = SHARED\nsubinclude($C)\n"},
		}
		f := forms[g.f.Intn(len(forms))]
		s := f[1]
		s = strings.ReplaceAll(s, "$A", d(a))
		s = strings.ReplaceAll(s, "$B", d(b))
		s = strings.ReplaceAll(s, "$C", d(c))
		s = strings.ReplaceAll(s, "$N", n)
		names := []string{}
		for _, pre := range []string{"q", "r"} {
			if strings.Contains(s, pre+n+" =") {
				names = append(names, pre+n)
			}
		}
		// what is observable afterwards: SHARED (defined by every defs file, last one wins) and the
		// private constant of every file that was subincluded (a dropped subinclude leaves it undefined)
		if g.fp(0.7) {
			obs := []string{"SHARED"}
			for i := 0; i < 8; i++ {
				if strings.Contains(s, fmt.Sprintf("//defs:d%d", i)) && !strings.Contains(f[0], "inside-if") {
					obs = append(obs, fmt.Sprintf("D%d_ONLY", i))
				}
			}
			s += n + " = [" + strings.Join(obs, ", ") + "]\n"
			names = append(names, n)
		}
		return "subinclude/" + f[0], g.stmtLead(0) + s, names
	},
	// 20: package()
	func(g *gen) (string, string, []string) {
		tn := fmt.Sprintf("t%d_%d", g.idx, g.f.Intn(1000))
		v := g.pick([]string{`["//p/...", "//a/..."]`, `["PUBLIC"]`, `["//z:z", "//b:b"]`})
		return "package/default_visibility", "package(default_visibility = " + v + ")\nfilegroup(\n    name = \"" + tn + "\",\n)\n", nil
	},
}

// DefsFiles are the (static) subincluded files //defs:d0..d7; each defines SHARED.
func DefsFiles() map[string]string {
	m := map[string]string{}
	for i := 0; i < 8; i++ {
		m[fmt.Sprintf("d%d", i)] = fmt.Sprintf("SHARED = \"from d%d\"\nD%d_ONLY = %d\n\ndef d%d_fn(x):\n    return x + %d\n", i, i, i, i, i)
	}
	return m
}

// genItem renders item idx of a file from its feature seed.
func genItem(idx, kind int, seed int64, noisy bool, noiseSeed int64, off map[string]bool) Item {
	g := &gen{f: rand.New(rand.NewSource(seed)), n: rand.New(rand.NewSource(noiseSeed)), noisy: noisy, idx: idx, used: map[string]bool{}, off: off}
	tag, src, names := features[kind](g)
	if !strings.HasSuffix(src, "\n") {
		src += "\n"
	}
	variant := ""
	if i := strings.Index(tag, "|"); i >= 0 {
		tag, variant = tag[:i], tag[i+1:]
	}
	it := Item{Tag: tag, Variant: variant, Src: src, Names: names, Seed: seed, Kind: kind, Noisy: noisy, NoiseSeed: noiseSeed}
	for k := range g.used {
		it.Noise = append(it.Noise, k)
	}
	sortStrings(it.Noise)
	return it
}

func sortStrings(l []string) {
	for i := 1; i < len(l); i++ {
		for j := i; j > 0 && l[j] < l[j-1]; j-- {
			l[j], l[j-1] = l[j-1], l[j]
		}
	}
}

// Canonical re-renders an item without layout noise (same feature choices).
func (it Item) Canonical(idx int) Item { return genItem(idx, it.Kind, it.Seed, false, 0, nil) }

// Without re-renders an item with the given layout-noise kinds switched off.
func (it Item) Without(idx int, off map[string]bool) Item {
	return genItem(idx, it.Kind, it.Seed, it.Noisy, it.NoiseSeed, off)
}

// featureWeights biases towards the constructs the property statement lists.
var featureWeights = []int{6, 4, 4, 2, 5, 5, 3, 3, 3, 3, 3, 4, 3, 2, 3, 3, 4, 4, 2, 5, 1}

// GenFile generates one file.
func GenFile(rng *rand.Rand) File {
	f := File{Name: "BUILD"}
	switch rng.Intn(6) {
	case 0:
		f.Name = "defs.build_defs"
	case 1:
		f.Name = "BUILD.plz"
	}
	if rng.Intn(40) == 0 {
		f.CRLF = true
	}
	if rng.Intn(25) == 0 {
		f.NoEOL = true
	}
	total := 0
	for _, w := range featureWeights {
		total += w
	}
	n := 3 + rng.Intn(8)
	noisyFile := rng.Intn(4) != 0
	for i := 0; i < n; i++ {
		x := rng.Intn(total)
		kind := 0
		for k, w := range featureWeights {
			if x < w {
				kind = k
				break
			}
			x -= w
		}
		if kind == len(features)-1 && i > 0 {
			kind = 0 // package() must precede every target
		}
		f.Items = append(f.Items, genItem(i, kind, rng.Int63(), noisyFile && rng.Intn(3) != 0, rng.Int63(), nil))
	}
	return f
}

// C04 — each action runs once, and only after its dependencies succeeded.
// Monitor: the race-built plz binary on generated DAGs under varied parallelism, GOMAXPROCS and
// delay injection at the scheduler's hook points. Three oracles watch every invocation: the action
// probe in the commands (DUP = a command ran twice, EARLY = it ran before a dependency's command had
// ended), the offline checker over the verifhook event trace (monotone states, one pending / one
// build_start / one finish per target, dependencies built at build_start, exactly one terminal
// result), and the Go race detector restricted to the scheduler's files.
// Besides plain builds of buildable repositories (from empty / after an edit), a sixth of the cases are
// non-building invocations (`plz query ...` on repositories whose BUILD files subinclude build_defs targets
// that depend on each other: those are built during parsing while everything else is only activated), and a
// sixth are builds with one failing action in a fan-in (a slow and a failing dependency of one target, the
// failing one later in the scheduler's wait order), mostly with --keep_going: nothing may start after it.
package c04

import (
	"fmt"
	"math/rand"
	"os"
	"path/filepath"
	"sort"
	"strings"
	"testing"
	"time"

	"verifharness/e2e"
	"verifharness/lib"
)

// Race reports name files by their path on disk (/repo/src/... or a worktree), functions by import path.
var anchors = []string{"/src/core/state.go", "/src/core/build_target.go", "/src/plz/plz.go", "/src/build/build_step.go", "/src/core/graph.go", "/src/core/cycle_detector.go", "please/src/cmap."}

func TestC04(t *testing.T) {
	r := lib.Start("C04")
	defer lib.End(t, r)
	r.Rule = "case = one plz build invocation (race-built binary) on a generated DAG (8-30 targets in 1-5 packages, diamonds and wide fan-in, optional subincluded build_defs built during parsing, actions sleeping 0-20 ms) with -n in {1,2,4,16}, GOMAXPROCS in {2,16} and seeded delay injection at scheduler hook points; even cases build from empty, odd cases rebuild after an edit; cases 2 mod 6 get a directed failure (a target with a slow and an at-once-failing dependency, the failing one later in label order) and mostly --keep_going; cases 5 mod 6 are instead a `plz query deps|alltargets|input|output` (nothing requested is to be built) on a repository of 3-5 build_defs targets that take each other as sources, whose packages subinclude each other (slow parses) and which 1-3 further packages subinclude in random order; distinct by (repository, schedule parameters); non-trivial = at least 3 build steps started (2 for a query)"
	r.Assumes = []string{"trace order is the verifhook sequence number (one process-wide atomic counter)", "only local builds are driven"}
	bin := lib.PlzBin(true)
	n := r.Pick(120, 4000)
	r.ForEach("invocation", n, 8, func(i int, rng *rand.Rand) {
		sb := e2e.NewSandbox(filepath.Join(r.Scratch(), fmt.Sprintf("c%d", i)))
		defer lib.RemoveAll(sb.Work)
		if i%6 == 5 {
			queryCase(r, i, rng, sb, bin)
			return
		}
		opts := e2e.GenOpts{Tools: true, DirOuts: rng.Intn(2) == 0, Sleep: 20, MinTargets: 8, MaxTargets: 30, MaxPkgs: 5, DepOneIn: 2 + rng.Intn(4), Subinclude: rng.Intn(3) == 0}
		state := e2e.Generate(rng, opts)
		state.VLog = sb.VLog
		incremental := i%2 == 1
		state.Strict = !incremental
		// Directed failure: one action fails at once while a sibling dependency of the same target still runs.
		var shape *fanIn
		keepGoing := false
		if i%6 == 2 {
			if f, ok := shapeFanInFailure(rng, state); ok {
				shape, keepGoing = &f, rng.Intn(4) != 0
				r.Obs("failure_shaped_cases", 1)
				r.ObsDistinct("failure_shape_via", f.Via)
			}
		}
		if err := state.Materialize(sb.Repo); err != nil {
			panic(err)
		}
		threads := []int{1, 2, 4, 16}[rng.Intn(4)]
		maxprocs := []int{2, 16}[rng.Intn(2)]
		prob := []float64{0, 0.05, 0.3}[rng.Intn(3)]
		maxus := []int{0, 200, 2000}[rng.Intn(3)]
		env := func(k int) []string {
			return []string{
				fmt.Sprintf("GOMAXPROCS=%d", maxprocs),
				"VERIF_TRACE=" + filepath.Join(sb.Work, fmt.Sprintf("trace%d", k)),
				fmt.Sprintf("VERIF_HOOK_DELAY=%d:%g:%d", rng.Int63n(1<<30), prob, maxus),
				"GORACE=halt_on_error=0 log_path=" + filepath.Join(sb.Work, "race"),
			}
		}
		args := []string{"build", "-n", fmt.Sprint(threads), "//..."}
		if keepGoing {
			args = []string{"build", "-n", fmt.Sprint(threads), "--keep_going", "//..."}
		}
		rounds := 1
		if incremental {
			rounds = 2
		}
		for k := 0; k < rounds; k++ {
			edit := e2e.Edit{Kind: "initial"}
			if k == 1 {
				next, e := e2e.ApplyRandomEdit(rng, state, e2e.EditOpts{})
				if err := next.Sync(sb.Repo, state); err != nil {
					panic(err)
				}
				state, edit = next, e
			}
			sb.ResetProbe()
			res := sb.Plz(bin, env(k), 300*time.Second, args...)
			if res.TimedOut {
				r.Inconclusive(fmt.Sprintf("case %d: plz did not finish within the 300 s watchdog (C05 decides hangs)", i))
				return
			}
			probe := sb.ReadProbe()
			evs, _ := e2e.ReadTrace(filepath.Join(sb.Work, fmt.Sprintf("trace%d", k)))
			sum, findings := e2e.CheckTrace(evs, res.Exit == 0)
			findings = confirmFindings(evs, findings)
			r.Case(lib.JSON(state.AllFiles())+fmt.Sprint(threads, maxprocs, prob, maxus, k, keepGoing), sum.BuildStarts >= 3)
			r.Obs("invocations", 1)
			r.Obs("trace_events", int64(sum.Events))
			r.Obs("build_steps_started", int64(sum.BuildStarts))
			r.Obs("commands_executed", int64(len(probe.Started)))
			r.ObsDistinct("schedule_signatures", sum.Signature)
			wit := map[string]any{"state": state, "threads": threads, "gomaxprocs": maxprocs, "delay": fmt.Sprintf("%g:%d", prob, maxus), "round": k, "edit": edit, "stderr": lib.Tail(res.Stderr, 1500)}
			if shape != nil {
				wit["failure_shape"], wit["keep_going"] = shape, keepGoing
			}
			// Exit 66 is the race detector's own exit status (halt_on_error=0: the build ran to the end and
			// the reports are in the race log, which is classified below); it is not a build failure.
			raceExit := res.Exit == 66 && len(lib.ParseRaceLogs(filepath.Join(sb.Work, "race"), anchors)) > 0
			if raceExit {
				r.Obs("invocations_with_race_exit", 1)
			}
			crashed := strings.Contains(res.Stderr, "panic:") || strings.Contains(res.Stderr, "fatal error:")
			if res.Exit != 0 && !raceExit && (shape == nil || crashed) {
				key := "build-fails"
				if crashed {
					key = "runtime-panic"
				}
				r.Violation(key, fmt.Sprintf("plz build of a buildable generated repository exited %d (threads=%d)", res.Exit, threads), wit, i)
				return
			}
			if shape != nil {
				// (that plz exits non-zero here is C05's business)
				afterFailure(r, i, state, shape, probe, sum, wit)
			}
			for _, v := range probe.Violations {
				f := strings.Fields(v)
				wit["probe"] = probe.Violations
				r.Violation("probe-"+f[0], "action probe: "+v, wit, i)
			}
			for _, f := range findings {
				wit["finding"] = f.What
				r.Violation("trace/"+f.Key, f.What, wit, i)
			}
			// every command that started also ended, and every executed command appears in the trace
			if len(probe.Started) != len(probe.Ended) && shape == nil {
				r.Violation("command-started-not-ended", fmt.Sprintf("started %v ended %v with exit 0", probe.Started, probe.Ended), wit, i)
			}
			if r.WantSample() {
				r.Sample(map[string]any{"targets": len(state.Targets), "threads": threads, "gomaxprocs": maxprocs, "delay": fmt.Sprintf("%g:%d", prob, maxus), "signature": sum.Signature, "events": sum.Events})
			}
		}
		// Race reports of this case's plz processes.
		for _, rep := range lib.ParseRaceLogs(filepath.Join(sb.Work, "race"), anchors) {
			if sendVsClose(rep.Text) {
				r.Obs("race_reports_send_vs_close_of_task_queue", 1)
				r.NoteOnce("race_send_vs_close:"+rep.Key, rep.Text)
			} else if rep.Anchor {
				txt := rep.Text
				if len(txt) > 5000 {
					txt = txt[:5000]
				}
				r.Violation("race:"+rep.Key, "data race in scheduler code reported by the race detector", map[string]any{"report": txt, "state": state}, i)
				r.Obs("race_reports_anchored", 1)
			} else {
				r.Obs("race_reports_elsewhere", 1)
				r.ObsDistinct("races_elsewhere", rep.Key)
				r.NoteOnce("race_elsewhere:"+rep.Key, rep.Text)
			}
		}
		if _, err := os.Stat(filepath.Join(sb.Work, "trace0")); err != nil {
			r.FatalInconclusive("no trace file was written: hooks not compiled in?")
		}
	})
	r.RequireObserved("invocations", "trace_events", "build_steps_started", "commands_executed")
}

// afterFailure: nothing downstream of the failed action may have started, neither its command (probe) nor its build step (trace).
func afterFailure(r *lib.Run, i int, state *e2e.Repo, shape *fanIn, probe e2e.Probe, sum e2e.TraceSummary, wit map[string]any) {
	downstream := func(label string) bool { return label != shape.Fail && state.Closure(label)[shape.Fail] }
	failedRan := false
	for _, id := range probe.Started {
		for _, tg := range state.Targets {
			if tg.ID() != id {
				continue
			}
			if tg.Label() == shape.Fail {
				failedRan = true
			}
			if downstream(tg.Label()) {
				r.Violation("command-ran-after-failed-dependency", fmt.Sprintf("the command of %s ran although %s, which it depends on, had failed", tg.Label(), shape.Fail), wit, i)
			}
		}
	}
	for _, l := range sum.Started {
		if downstream(l) {
			r.Violation("trace/build-step-downstream-of-failure", fmt.Sprintf("the build step of %s started although %s, which it depends on, had failed", l, shape.Fail), wit, i)
		}
	}
	if failedRan {
		r.Obs("failing_action_ran", 1)
	}
}

// queryCase is one non-building invocation on a repository of interdependent, subincluded build_defs targets.
func queryCase(r *lib.Run, i int, rng *rand.Rand, sb *e2e.Sandbox, bin string) {
	q := genQuery(rng)
	q.VLog = sb.VLog
	files := q.files()
	if err := lib.WriteTree(sb.Repo, files); err != nil {
		panic(err)
	}
	threads := []int{1, 2, 4, 16}[rng.Intn(4)]
	maxprocs := []int{2, 16}[rng.Intn(2)]
	prob := []float64{0, 0.05, 0.3}[rng.Intn(3)]
	maxus := []int{0, 200, 2000}[rng.Intn(3)]
	trace := filepath.Join(sb.Work, "trace0")
	env := []string{
		fmt.Sprintf("GOMAXPROCS=%d", maxprocs),
		"VERIF_TRACE=" + trace,
		fmt.Sprintf("VERIF_HOOK_DELAY=%d:%g:%d", rng.Int63n(1<<30), prob, maxus),
		"GORACE=halt_on_error=0 log_path=" + filepath.Join(sb.Work, "race"),
	}
	args := append([]string{"-n", fmt.Sprint(threads)}, q.queryArgs(rng)...)
	res := sb.Plz(bin, env, 300*time.Second, args...)
	if res.TimedOut {
		r.Inconclusive(fmt.Sprintf("case %d: plz query did not finish within the 300 s watchdog (C05 decides hangs)", i))
		return
	}
	probe := sb.ReadProbe()
	evs, _ := e2e.ReadTrace(trace)
	sum, findings := e2e.CheckTrace(evs, res.Exit == 0)
	findings = confirmFindings(evs, findings)
	r.Case(lib.JSON(files)+fmt.Sprint(args, maxprocs, prob, maxus), sum.BuildStarts >= 2)
	r.Obs("invocations", 1)
	r.Obs("query_invocations", 1)
	r.Obs("trace_events", int64(sum.Events))
	r.Obs("build_steps_started", int64(sum.BuildStarts))
	r.Obs("build_steps_started_by_queries", int64(sum.BuildStarts))
	r.Obs("commands_executed", int64(len(probe.Started)))
	r.ObsDistinct("schedule_signatures", sum.Signature)
	r.ObsDistinct("query_kinds", args[3])
	wit := map[string]any{"repo": q, "files": files, "args": args, "gomaxprocs": maxprocs, "delay": fmt.Sprintf("%g:%d", prob, maxus), "stderr": lib.Tail(res.Stderr, 1500)}
	races := lib.ParseRaceLogs(filepath.Join(sb.Work, "race"), anchors)
	raceExit := res.Exit == 66 && len(races) > 0
	if res.Exit != 0 && !raceExit {
		key := "query-fails"
		if strings.Contains(res.Stderr, "panic:") || strings.Contains(res.Stderr, "fatal error:") {
			key = "runtime-panic"
		}
		// the trace and the probe say why (if the scheduler is why); report those first
		for _, v := range probe.Violations {
			r.Violation("probe-"+strings.Fields(v)[0], "action probe: "+v, wit, i)
		}
		for _, f := range findings {
			wit["finding"] = f.What
			r.Violation("trace/"+f.Key, f.What, wit, i)
		}
		r.Violation(key, fmt.Sprintf("plz %s on a well-formed generated repository exited %d", strings.Join(args, " "), res.Exit), wit, i)
		return
	}
	for _, v := range probe.Violations {
		wit["probe"] = probe.Violations
		r.Violation("probe-"+strings.Fields(v)[0], "action probe: "+v, wit, i)
	}
	for _, f := range findings {
		wit["finding"] = f.What
		r.Violation("trace/"+f.Key, f.What, wit, i)
	}
	if len(probe.Started) != len(probe.Ended) {
		r.Violation("command-started-not-ended", fmt.Sprintf("started %v ended %v with exit 0", probe.Started, probe.Ended), wit, i)
	}
	for _, rep := range races {
		if sendVsClose(rep.Text) {
			r.Obs("race_reports_send_vs_close_of_task_queue", 1)
			r.NoteOnce("race_send_vs_close:"+rep.Key, rep.Text)
		} else if rep.Anchor {
			txt := rep.Text
			if len(txt) > 5000 {
				txt = txt[:5000]
			}
			r.Violation("race:"+rep.Key, "data race in scheduler code reported by the race detector", map[string]any{"report": txt, "repo": q, "args": args}, i)
			r.Obs("race_reports_anchored", 1)
		} else {
			r.Obs("race_reports_elsewhere", 1)
			r.ObsDistinct("races_elsewhere", rep.Key)
			r.NoteOnce("race_elsewhere:"+rep.Key, rep.Text)
		}
	}
	if _, err := os.Stat(trace); err != nil {
		r.FatalInconclusive("no trace file was written: hooks not compiled in?")
	}
	if r.WantSample() && i%12 == 5 {
		r.Sample(map[string]any{"query": args, "defs_targets": len(q.Defs), "app_packages": len(q.Apps), "signature": sum.Signature, "events": sum.Events})
	}
}

var stateRank = map[string]int{
	"Inactive": 0, "Semiactive": 1, "Active": 2, "Pending": 3, "Building": 4, "Stopped": 5, "Built": 6, "Cached": 7,
	"Unchanged": 8, "Reused": 9, "Built remotely": 10, "Reused remote outputs": 11, "Dependency Failed": 12, "Failed": 13,
}

// confirmFindings re-examines the trace checker's "state-not-increasing" findings. The checker compares each state
// event with the previous one of the same target in trace order, but a compare-and-swap and the event that records
// it are two steps: when two goroutines move one target Inactive>Semiactive and Semiactive>Active back to back (the
// double activation of a subincluded target in a non-building invocation) the two events can be written in either
// order. What does not depend on that order: every recorded transition goes upwards, and no state is entered twice.
func confirmFindings(evs []e2e.Event, findings []e2e.TraceFinding) []e2e.TraceFinding {
	var out []e2e.TraceFinding
	suspect := false
	for _, f := range findings {
		if strings.HasPrefix(f.Key, "state-not-increasing/") {
			suspect = true
		} else {
			out = append(out, f)
		}
	}
	if !suspect {
		return out
	}
	entered := map[string]bool{}
	for _, e := range evs {
		if e.Kind != "state" {
			continue
		}
		parts := strings.SplitN(e.Detail, ">", 2)
		if len(parts) != 2 {
			continue
		}
		from, to := parts[0], parts[1]
		if stateRank[to] <= stateRank[from] {
			out = append(out, e2e.TraceFinding{Key: "state-not-increasing/" + from + ">" + to, What: fmt.Sprintf("%s moved from %s to %s (seq %d)", e.Subject, from, to, e.Seq)})
		} else if entered[e.Subject+"\x00"+to] {
			out = append(out, e2e.TraceFinding{Key: "state-entered-twice/" + to, What: fmt.Sprintf("%s entered state %s twice (seq %d)", e.Subject, to, e.Seq)})
		}
		entered[e.Subject+"\x00"+to] = true
	}
	return out
}

// sendVsClose recognises the one race report that is the documented design rather than a defect: Stop() closes
// the task queues while addPendingBuild/addPendingParse goroutines may still be sending on them, and those
// goroutines recover from the "send on closed channel" panic on purpose. The detector reports the close against
// the send; no memory of the scheduler is involved. It only happens when a failure stops the build early.
func sendVsClose(report string) bool {
	var tops []string
	lines := strings.Split(report, "\n")
	for i, l := range lines {
		t := strings.TrimSpace(l)
		if (strings.HasPrefix(t, "Write at ") || strings.HasPrefix(t, "Read at ") || strings.HasPrefix(t, "Previous write at ") || strings.HasPrefix(t, "Previous read at ")) && i+1 < len(lines) {
			tops = append(tops, strings.TrimSpace(lines[i+1]))
		}
	}
	if len(tops) != 2 {
		return false
	}
	sort.Strings(tops)
	return strings.HasPrefix(tops[0], "runtime.chansend") && strings.HasPrefix(tops[1], "runtime.closechan")
}

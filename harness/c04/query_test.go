package c04

import (
	"fmt"
	"math/rand"
	"sort"
	"strings"
)

// Non-building invocations (`plz query ...`, NeedBuild = false) still build: every target that a BUILD file
// subincludes is force-built during parsing, together with everything it depends on, while all other
// targets are only activated ("Semiactive") and resolved. A subincluded target is therefore usually
// activated twice, once as a plain requested target and once for the subinclude, by two goroutines of the
// queueing state machine that race on its Active -> Pending transition. The generated repositories below
// are made of that: a layer of build_defs-producing targets that depend on each other (as sources) and whose
// packages subinclude each other (so that some packages take a while to parse and a dependent is blocked
// resolving them), and a layer of application packages that subinclude several of them in a random order.

// A qDefs is one build_defs-producing genrule (alone in its package).
type qDefs struct {
	Pkg     string `json:"pkg"`
	Srcs    []int  `json:"srcs,omitempty"` // earlier defs targets used as sources
	Subs    []int  `json:"subs,omitempty"` // earlier defs targets subincluded by this package's BUILD file
	SleepMS int    `json:"sleep_ms"`
}

// A qApp is one application package: it subincludes defs targets, in this order.
type qApp struct {
	Pkg  string `json:"pkg"`
	Subs []int  `json:"subs"`
}

type qRepo struct {
	Defs []qDefs `json:"defs"`
	Apps []qApp  `json:"apps"`
	VLog string  `json:"vlog"`
}

func (q *qRepo) label(i int) string { return "//" + q.Defs[i].Pkg + ":defs" }
func qID(pkg string) string         { return strings.ReplaceAll(pkg, "/", "_") + ".defs" }

func quote(s string) string {
	return `"` + strings.ReplaceAll(strings.ReplaceAll(s, `\`, `\\`), `"`, `\"`) + `"`
}

// genQuery generates one such repository. Most of them contain, by construction, a defs target T with a source
// dependency D whose package is slow to parse (it subincludes a sleeping defs target) while T itself is
// subincluded by an application package; everything else (fan-out, further subincludes, sleeps, names and hence
// the order in which packages are found) is random.
func genQuery(rng *rand.Rand) *qRepo {
	q := &qRepo{}
	pool := []string{"aa", "bd", "defs", "lib/defs", "m", "zz", "bd/sub", "k0"}
	rng.Shuffle(len(pool), func(i, j int) { pool[i], pool[j] = pool[j], pool[i] })
	k := 3 + rng.Intn(3)
	for i := 0; i < k; i++ {
		d := qDefs{Pkg: pool[i], SleepMS: []int{0, 20, 80, 150, 300}[rng.Intn(5)]}
		for j := 0; j < i; j++ {
			if rng.Intn(3) == 0 {
				d.Srcs = append(d.Srcs, j)
			}
		}
		for j := 0; j < i; j++ {
			if rng.Intn(4) == 0 {
				d.Subs = append(d.Subs, j)
			}
		}
		q.Defs = append(q.Defs, d)
	}
	if rng.Intn(4) != 0 {
		// the shape: h (slow) <-subinclude- package of j ; t takes j as a source
		h := rng.Intn(k - 2)
		j := h + 1 + rng.Intn(k-h-2)
		t := j + 1 + rng.Intn(k-j-1)
		q.Defs[h].SleepMS = 200 + rng.Intn(300)
		if q.Defs[j].SleepMS < 50 {
			q.Defs[j].SleepMS = 50 + rng.Intn(200)
		}
		q.Defs[j].Subs = addInt(q.Defs[j].Subs, h)
		q.Defs[t].Srcs = addInt(q.Defs[t].Srcs, j)
	}
	apps := []string{"app", "a0", "zapp", "lib/app"}
	rng.Shuffle(len(apps), func(i, j int) { apps[i], apps[j] = apps[j], apps[i] })
	na := 1 + rng.Intn(3)
	used := map[int]bool{}
	for a := 0; a < na; a++ {
		app := qApp{Pkg: apps[a]}
		perm := rng.Perm(k)
		app.Subs = perm[:1+rng.Intn(k)]
		for _, s := range app.Subs {
			used[s] = true
		}
		q.Apps = append(q.Apps, app)
	}
	// every defs target that nothing else consumes is subincluded by the last application package
	last := &q.Apps[len(q.Apps)-1]
	for i := range q.Defs {
		consumed := used[i]
		for _, d := range q.Defs {
			if containsInt(d.Srcs, i) || containsInt(d.Subs, i) {
				consumed = true
			}
		}
		if !consumed {
			last.Subs = append(last.Subs, i)
		}
	}
	return q
}

func containsInt(xs []int, x int) bool {
	for _, y := range xs {
		if y == x {
			return true
		}
	}
	return false
}

func addInt(xs []int, x int) []int {
	if containsInt(xs, x) {
		return xs
	}
	xs = append(xs, x)
	sort.Ints(xs)
	return xs
}

// files renders the repository (BUILD files, sources, .plzconfig).
func (q *qRepo) files() map[string]string {
	out := map[string]string{".plzconfig": "[please]\nselfupdate = false\nautoclean = false\n\n[build]\npath = /usr/local/bin:/usr/bin:/bin\n\n[cache]\ndir =\n"}
	for i, d := range q.Defs {
		var sb strings.Builder
		for _, s := range d.Subs {
			fmt.Fprintf(&sb, "subinclude(%s)\n", quote(q.label(s)))
		}
		id := qID(d.Pkg)
		var c []string
		c = append(c, fmt.Sprintf(`mkdir "%s/%s.started" 2>/dev/null || echo "DUP %s" >> "%s/violations"`, q.VLog, id, id, q.VLog))
		srcs := []string{"own.txt"}
		for _, s := range d.Srcs {
			srcs = append(srcs, q.label(s))
			dep := qID(q.Defs[s].Pkg)
			c = append(c, fmt.Sprintf(`test -e "%s/%s.end" || echo "EARLY %s %s" >> "%s/violations"`, q.VLog, dep, id, dep, q.VLog))
		}
		if d.SleepMS > 0 {
			c = append(c, fmt.Sprintf("sleep %d.%03d", d.SleepMS/1000, d.SleepMS%1000))
		}
		c = append(c, `cat $SRCS > "$OUT"`, fmt.Sprintf(`touch "%s/%s.end"`, q.VLog, id))
		fmt.Fprintf(&sb, "genrule(\n    name = \"defs\",\n    srcs = [%s],\n    outs = [\"d%d.build_defs\"],\n    cmd = %s,\n    visibility = [\"PUBLIC\"],\n)\n",
			quoteList(srcs), i, quote(strings.Join(c, "; ")))
		// something that uses what this package subincluded
		for _, s := range d.Subs {
			fmt.Fprintf(&sb, "\nfilegroup(\n    name = \"uses%d\",\n    srcs = [\"own.txt\"],\n    labels = [\"v%%d\" %% V_%d],\n)\n", s, s)
		}
		out[d.Pkg+"/BUILD"] = sb.String()
		out[d.Pkg+"/own.txt"] = fmt.Sprintf("V_%d = %d\n", i, i)
	}
	for _, a := range q.Apps {
		var sb strings.Builder
		for _, s := range a.Subs {
			fmt.Fprintf(&sb, "subinclude(%s)\n", quote(q.label(s)))
		}
		for n, s := range a.Subs {
			fmt.Fprintf(&sb, "\ngenrule(\n    name = \"g%d\",\n    srcs = [\"in.txt\"],\n    outs = [\"g%d.txt\"],\n    cmd = \"echo %%d > $OUT\" %% V_%d,\n)\n", n, n, s)
		}
		fmt.Fprintf(&sb, "\nfilegroup(\n    name = \"app\",\n    srcs = [\"in.txt\"],\n)\n")
		out[a.Pkg+"/BUILD"] = sb.String()
		out[a.Pkg+"/in.txt"] = "x\n"
	}
	return out
}

func quoteList(ss []string) string {
	parts := make([]string, len(ss))
	for i, s := range ss {
		parts[i] = quote(s)
	}
	return strings.Join(parts, ", ")
}

// queryArgs picks the non-building invocation: the query kind and how the targets are named (the whole
// repository, or an explicit list in a random order: the order of a list decides which targets are activated first).
func (q *qRepo) queryArgs(rng *rand.Rand) []string {
	kind := []string{"deps", "deps", "alltargets", "input", "output"}[rng.Intn(5)]
	args := []string{"query", kind}
	if rng.Intn(2) == 0 {
		return append(args, "//...")
	}
	var labels []string
	for i := range q.Defs {
		labels = append(labels, []string{q.label(i), "//" + q.Defs[i].Pkg + ":all"}[rng.Intn(2)])
	}
	for _, a := range q.Apps {
		labels = append(labels, []string{"//" + a.Pkg + ":app", "//" + a.Pkg + ":all"}[rng.Intn(2)])
	}
	rng.Shuffle(len(labels), func(i, j int) { labels[i], labels[j] = labels[j], labels[i] })
	return append(args, labels...)
}

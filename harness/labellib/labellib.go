// Package labellib holds what the label/pattern monitors (C20, C33, C36) share: the reference
// semantics of target patterns written from docs/basics.html ("Build labels"), the adversarial
// package-name pool (sibling packages that share a string prefix), and a small end-to-end helper
// that materialises a repository of genrule/gentest targets and runs the real plz binary on it.
package labellib

import (
	"fmt"
	"os"
	"path/filepath"
	"sort"
	"strings"

	"github.com/thought-machine/please/src/cli"
	"github.com/thought-machine/please/src/core"

	"verifharness/iplib"
	"verifharness/lib"
)

// Silence sends Please's in-process log output (including the ERROR lines that CanSee prints for
// every refused experimental dependency) to /dev/null. The logging backend captures os.Stderr when it
// is initialised, so the variable is swapped only around that call; fd 2 itself is untouched.
func Silence() {
	iplib.Quiet()
	if os.Getenv("VERIF_PLZ_VERBOSITY") != "" {
		return
	}
	devnull, err := os.OpenFile(os.DevNull, os.O_WRONLY, 0)
	if err != nil {
		return
	}
	saved := os.Stderr
	os.Stderr = devnull
	cli.InitLogging(cli.MinVerbosity)
	os.Stderr = saved
}

// ---------------------------------------------------------------------------------------------
// Reference pattern semantics (docs/basics.html):
//   //mypackage:all  refers to all targets in 'mypackage'.
//   //mypackage/...  refers to all targets in 'mypackage' and anywhere beneath it in the filesystem.
//   PUBLIC is equivalent to //... in visibility specifications.
// "Beneath it in the filesystem" is decided on whole path components.

// Under reports whether package pkg is dir itself or lies beneath it, by path components.
func Under(pkg, dir string) bool {
	if dir == "" {
		return true
	}
	if pkg == dir {
		return true
	}
	return len(pkg) > len(dir) && pkg[:len(dir)] == dir && pkg[len(dir)] == '/'
}

// Selects is the reference for "pattern pat selects label l" (subrepos are not considered; callers
// only compare labels of the same, empty, subrepo).
func Selects(pat, l core.BuildLabel) bool {
	switch pat.Name {
	case "...":
		return Under(l.PackageName, pat.PackageName)
	case "all":
		return l.PackageName == pat.PackageName
	default:
		return l.PackageName == pat.PackageName && l.Name == pat.Name
	}
}

// PairClass names the relation between a pattern's package and a candidate package; it is used in
// witness keys so that e.g. the sibling-prefix confusion is told apart from a missed subpackage.
func PairClass(patPkg, pkg string) string {
	switch {
	case patPkg == pkg:
		return "same-package"
	case patPkg == "":
		return "root-pattern"
	case Under(pkg, patPkg):
		return "subpackage"
	case strings.HasPrefix(pkg, patPkg):
		return "sibling-prefix"
	case Under(patPkg, pkg):
		return "ancestor"
	case strings.HasPrefix(patPkg, pkg) && pkg != "":
		return "shorter-sibling"
	default:
		return "unrelated"
	}
}

// PackagePool is the adversarial pool of package names: p with subpackages, siblings that share
// p's spelling as a string prefix (pfoo, pq, p.q, p-q, pf), a package that merely contains it
// (q/p), deeper nesting and the root package.
var PackagePool = []string{"", "p", "pfoo", "p/q", "pq", "p.q", "p-q", "q/p", "p/q/r", "p/qfoo", "pf", "q", "pfoo/q", "p_q"}

// SiblingPairs lists (directory, sibling sharing its prefix) pairs used by the end-to-end probes.
var SiblingPairs = [][2]string{{"p", "pfoo"}, {"p", "p.q"}, {"p", "p-q"}, {"p", "pq"}, {"p/q", "p/qfoo"}, {"ab", "abc"}, {"lib", "lib2"}, {"x/y", "x/y_z"}}

// L builds a label without validation.
func L(pkg, name string) core.BuildLabel { return core.BuildLabel{PackageName: pkg, Name: name} }

// Pat renders a pattern/label the way a user writes it.
func Pat(pkg, name string) string {
	if name == "..." {
		if pkg == "" {
			return "//..."
		}
		return "//" + pkg + "/..."
	}
	return "//" + pkg + ":" + name
}

// ---------------------------------------------------------------------------------------------
// End-to-end helper.

// A Target is one generated genrule (or gentest when Test is set).
type Target struct {
	Pkg        string   `json:"pkg"`
	Name       string   `json:"name"`
	Test       bool     `json:"test,omitempty"`
	TestOnly   bool     `json:"test_only,omitempty"`
	Visibility []string `json:"visibility,omitempty"`
	Labels     []string `json:"labels,omitempty"`
	Deps       []string `json:"deps,omitempty"`
	Tools      []string `json:"tools,omitempty"`
	Srcs       []string `json:"srcs,omitempty"` // label sources
	NoSandbox  bool     `json:"no_sandbox,omitempty"`
}

// Label returns the target's label as a string.
func (t Target) Label() string { return "//" + t.Pkg + ":" + t.Name }

func pyList(l []string) string {
	q := make([]string, len(l))
	for i, s := range l {
		q[i] = fmt.Sprintf("%q", s)
	}
	return "[" + strings.Join(q, ", ") + "]"
}

// OutName is the single output file of a generated target.
func (t Target) OutName() string {
	return strings.NewReplacer("#", "_h_", "/", "_").Replace(t.Name) + ".out"
}

// BuildText renders the BUILD statement for the target.
func (t Target) BuildText() string {
	var sb strings.Builder
	if t.Test {
		fmt.Fprintf(&sb, "gentest(\n    name = %q,\n    test_cmd = \"true\",\n    no_test_output = True,\n    outs = [%q],\n    cmd = \"echo %s > $OUT\",\n", t.Name, t.OutName(), t.Name)
	} else {
		fmt.Fprintf(&sb, "genrule(\n    name = %q,\n    outs = [%q],\n    cmd = \"echo %s > $OUT\",\n", t.Name, t.OutName(), t.Name)
		if t.TestOnly {
			sb.WriteString("    test_only = True,\n")
		}
	}
	if t.Visibility != nil {
		fmt.Fprintf(&sb, "    visibility = %s,\n", pyList(t.Visibility))
	}
	if len(t.Labels) > 0 {
		fmt.Fprintf(&sb, "    labels = %s,\n", pyList(t.Labels))
	}
	if len(t.Deps) > 0 {
		fmt.Fprintf(&sb, "    deps = %s,\n", pyList(t.Deps))
	}
	if len(t.Tools) > 0 {
		fmt.Fprintf(&sb, "    tools = %s,\n", pyList(t.Tools))
	}
	if len(t.Srcs) > 0 {
		fmt.Fprintf(&sb, "    srcs = %s,\n", pyList(t.Srcs))
	}
	if t.NoSandbox {
		sb.WriteString("    sandbox = False,\n")
	}
	sb.WriteString(")\n")
	return sb.String()
}

// A Repo is a generated repository on disk.
type Repo struct {
	Root string
}

// WriteRepo materialises a repository: .plzconfig = lib.DefaultPlzConfig + extraConfig, one BUILD
// file per package that has targets (plus the packages listed in emptyPkgs).
func WriteRepo(root, extraConfig string, targets []Target, emptyPkgs ...string) (*Repo, error) {
	if err := os.MkdirAll(root, 0o755); err != nil {
		return nil, err
	}
	if err := os.WriteFile(filepath.Join(root, ".plzconfig"), []byte(lib.DefaultPlzConfig+extraConfig), 0o644); err != nil {
		return nil, err
	}
	by := map[string][]Target{}
	for _, t := range targets {
		by[t.Pkg] = append(by[t.Pkg], t)
	}
	for _, p := range emptyPkgs {
		if _, ok := by[p]; !ok {
			by[p] = nil
		}
	}
	for pkg, ts := range by {
		dir := filepath.Join(root, pkg)
		if err := os.MkdirAll(dir, 0o755); err != nil {
			return nil, err
		}
		var sb strings.Builder
		for _, t := range ts {
			sb.WriteString(t.BuildText())
			sb.WriteString("\n")
		}
		if err := os.WriteFile(filepath.Join(dir, "BUILD"), []byte(sb.String()), 0o644); err != nil {
			return nil, err
		}
	}
	return &Repo{Root: root}, nil
}

// Plz runs the real plz binary (built by ./check from the tree under test) in the repository.
func (r *Repo) Plz(args ...string) lib.PlzResult {
	return lib.PlzCmd{Bin: lib.PlzBin(false), Dir: r.Root, Args: args}.Run()
}

// OutLabels extracts the build labels printed one per line on stdout, sorted.
func OutLabels(stdout string) []string {
	out := []string{}
	for _, line := range strings.Split(stdout, "\n") {
		line = strings.TrimSpace(line)
		if strings.HasPrefix(line, "//") {
			out = append(out, line)
		}
	}
	sort.Strings(out)
	return out
}

// SetDiff returns the members only in a and only in b (both sorted unique inputs not required).
func SetDiff(a, b []string) (onlyA, onlyB []string) {
	ma, mb := map[string]bool{}, map[string]bool{}
	for _, x := range a {
		ma[x] = true
	}
	for _, x := range b {
		mb[x] = true
	}
	for x := range ma {
		if !mb[x] {
			onlyA = append(onlyA, x)
		}
	}
	for x := range mb {
		if !ma[x] {
			onlyB = append(onlyB, x)
		}
	}
	sort.Strings(onlyA)
	sort.Strings(onlyB)
	return
}

// PkgOf returns the package part of a "//pkg:name" string.
func PkgOf(label string) string {
	s := strings.TrimPrefix(label, "//")
	if i := strings.IndexByte(s, ':'); i >= 0 {
		return s[:i]
	}
	return s
}

// Outcome classes of one `plz build`.
const (
	BuildOK         = "ok"
	BuildVisibility = "visibility" // "isn't visible to" / "cannot depend on experimental target"
	BuildTestOnly   = "test_only"  // "it's marked test_only"
	BuildOther      = "other-failure"
)

// BuildOutcome runs `plz build label` and classifies the result by exit status and error text.
// plz occasionally exits non-zero having printed nothing at all (seen under heavy load); such a run
// says nothing about why it failed, so it is repeated (at most 3 times) before BuildOther is returned.
func (r *Repo) BuildOutcome(label string, extraArgs ...string) (string, lib.PlzResult, int) {
	var res lib.PlzResult
	for try := 1; ; try++ {
		res = r.Plz(append([]string{"build", label}, extraArgs...)...)
		out := res.Stderr + res.Stdout
		switch {
		case res.Exit == 0:
			return BuildOK, res, try
		case strings.Contains(out, "it's marked test_only"):
			return BuildTestOnly, res, try
		case strings.Contains(out, "isn't visible to") || strings.Contains(out, "cannot depend on experimental target"):
			return BuildVisibility, res, try
		}
		if try == 3 {
			return BuildOther, res, try
		}
	}
}

// C22 — `//dir/...` expands to exactly the packages under the directory.
//
// Monitor: generated directory trees (BUILD / BUILD.plz / look-alike files, plz-out, hidden
// directories, names that share string prefixes/suffixes with the configured blacklist and
// experimental entries) are materialised on disk; the real walker plz.FindAllBuildFiles is run from
// the tree's root exactly as findOriginalTask runs it (cwd = repo root, rootPath = start dir,
// prefix = ""), and the set of package directories it yields is compared with a reference walk
// written from the property statement (whole path components). A small end-to-end sample drives
// `plz query alltargets //start/...` over the same kind of tree.
//
// Three-valued reference: a package is must-include, must-exclude or don't-care. Don't-care is used
// where neither the statement nor docs/config.html decide: packages at or under an experimental
// directory (the statement does not list them as excluded, the code skips them), multi-component
// blacklist entries that occur deeper than the repo root, and — when the expansion is rooted below
// the repo root — whatever hangs on a component strictly ABOVE the start directory's own name that
// only a walk from the repo root would have met: a plz-out or hidden ancestor (subrepos are expanded
// from plz-out/subrepos/<name>/...) and a bare blacklisted name below the root (`vendor` for
// `//a/vendor/x/...`). What IS decided for a start below the root: a start at or beneath a
// directory blacklisted by its root-relative path (`third_party` for `//third_party/go/...`) yields
// nothing, and neither does a start whose own name is blacklisted, hidden or plz-out.
package c22

import (
	"fmt"
	"math/rand"
	"os"
	"path/filepath"
	"sort"
	"strings"
	"testing"

	"github.com/thought-machine/please/src/core"
	"github.com/thought-machine/please/src/plz"

	"verifharness/iplib"
	"verifharness/lib"
)

// A treeCase is one generated repository layout plus the parse configuration and the start directory.
type treeCase struct {
	Dirs          []string `json:"dirs"`  // every directory, root-relative, "" is the root (implicit)
	Files         []string `json:"files"` // every regular file, root-relative
	Blacklist     []string `json:"blacklist"`
	Experimental  []string `json:"experimental"`
	BuildFileName []string `json:"buildfilename"`
	Start         string   `json:"start"` // "" = repo root
}

func (tc treeCase) clone() treeCase {
	c := tc
	c.Dirs = append([]string(nil), tc.Dirs...)
	c.Files = append([]string(nil), tc.Files...)
	c.Blacklist = append([]string(nil), tc.Blacklist...)
	c.Experimental = append([]string(nil), tc.Experimental...)
	c.BuildFileName = append([]string(nil), tc.BuildFileName...)
	return c
}

func (tc treeCase) String() string {
	return fmt.Sprintf("start=%q blacklist=%q experimental=%q buildfilename=%q files=%q dirs=%q", tc.Start, tc.Blacklist, tc.Experimental, tc.BuildFileName, tc.Files, tc.Dirs)
}

// ---------------------------------------------------------------------------------------------
// Reference, written from the statement: whole path components only.

type verdict int

const (
	mustInclude verdict = iota
	mustExclude
	dontCare
)

func under(p, dir string) bool { // p is dir or lies below it, by components
	return dir == "" || p == dir || strings.HasPrefix(p, dir+"/")
}

func contains(l []string, s string) bool {
	for _, x := range l {
		if x == s {
			return true
		}
	}
	return false
}

// classify decides what the statement says about directory d (which is known to hold a build file)
// for an expansion rooted at tc.Start. The second result names the rule that excluded it.
// Any rule that excludes wins over a don't-care.
func classify(tc treeCase, d string) (verdict, string) {
	comps := []string{}
	if d != "" {
		comps = strings.Split(d, "/")
	}
	// Components with index < above are proper ancestors of the start directory: a walk rooted at
	// the start never visits them.
	above := 0
	if tc.Start != "" {
		above = len(strings.Split(tc.Start, "/")) - 1
	}
	care := true
	for i, c := range comps {
		if c == "plz-out" || strings.HasPrefix(c, ".") {
			if i < above {
				care = false // rooted below plz-out / a hidden directory: not decided (subrepos live under plz-out)
				continue
			}
			if c == "plz-out" {
				return mustExclude, "plz-out"
			}
			return mustExclude, "hidden"
		}
	}
	for _, b := range tc.Blacklist {
		if !strings.Contains(b, "/") {
			for i, c := range comps {
				if c != b {
					continue
				}
				if i == 0 || i >= above {
					// the name of a directory the walk meets, or (i == 0) the root-relative path of
					// a directory: everything at or beneath it is blacklisted wherever the walk starts
					return mustExclude, "blacklist"
				}
				care = false // a bare name strictly above the start and below the root: undocumented
			}
			continue
		}
		if d == b || strings.HasPrefix(d, b+"/") {
			return mustExclude, "blacklist"
		}
		if strings.Contains("/"+d+"/", "/"+b+"/") {
			care = false // a path-like entry found deeper than the root: undocumented
		}
	}
	for _, e := range tc.Experimental {
		if e != "" && under(d, e) {
			care = false // at or under an experimental directory: not decided by the statement
		}
	}
	if !care {
		return dontCare, ""
	}
	return mustInclude, ""
}

// startRelation names how the start directory relates to the configured lists and to the fixed
// exclusions: the classes of expansions rooted inside something a walk from the root would skip.
func startRelation(tc treeCase) string {
	if tc.Start == "" {
		return "root"
	}
	comps := strings.Split(tc.Start, "/")
	base := comps[len(comps)-1]
	for _, b := range tc.Blacklist {
		if tc.Start == b {
			return "start-is-blacklisted-path"
		}
	}
	for _, b := range tc.Blacklist {
		if strings.HasPrefix(tc.Start, b+"/") {
			return "start-beneath-blacklisted-path"
		}
	}
	if contains(tc.Blacklist, base) {
		return "start-is-blacklisted-name"
	}
	for _, c := range comps[:len(comps)-1] {
		if contains(tc.Blacklist, c) {
			return "start-beneath-nested-blacklisted-name"
		}
	}
	if base == "plz-out" || strings.HasPrefix(base, ".") {
		return "start-is-hidden-or-plz-out"
	}
	for _, c := range comps[:len(comps)-1] {
		if c == "plz-out" || strings.HasPrefix(c, ".") {
			return "start-beneath-hidden-or-plz-out"
		}
	}
	for _, e := range tc.Experimental {
		if e != "" && under(tc.Start, e) {
			return "start-in-experimental"
		}
	}
	return "start-visible"
}

func (tc treeCase) buildDirs() map[string]bool {
	out := map[string]bool{}
	for _, f := range tc.Files {
		if contains(tc.BuildFileName, filepath.Base(f)) {
			d := filepath.Dir(f)
			if d == "." {
				d = ""
			}
			out[d] = true
		}
	}
	return out
}

type expectation struct {
	verdicts map[string]verdict
	rule     map[string]string
}

func expect(tc treeCase) expectation {
	e := expectation{map[string]verdict{}, map[string]string{}}
	for d := range tc.buildDirs() {
		if !under(d, tc.Start) {
			continue
		}
		v, why := classify(tc, d)
		e.verdicts[d] = v
		e.rule[d] = why
	}
	return e
}

// startOK says whether a directory may be used as the start of an expansion: any directory of the
// tree. (The three-valued reference decides what a start inside a blacklisted, experimental, hidden
// or plz-out directory must, must not or may yield.)
func startOK(tc treeCase, d string) bool {
	return d == "" || contains(tc.Dirs, d)
}

// ---------------------------------------------------------------------------------------------
// Materialising and running the real walker.

func writeCase(root string, tc treeCase, buildContent func(dir string) string) error {
	if err := os.MkdirAll(root, 0o755); err != nil {
		return err
	}
	for _, d := range tc.Dirs {
		if d == "" {
			continue
		}
		if err := os.MkdirAll(filepath.Join(root, d), 0o755); err != nil {
			return err
		}
	}
	for _, f := range tc.Files {
		content := "x\n"
		if contains(tc.BuildFileName, filepath.Base(f)) && buildContent != nil {
			d := filepath.Dir(f)
			if d == "." {
				d = ""
			}
			content = buildContent(d)
		}
		if err := os.MkdirAll(filepath.Dir(filepath.Join(root, f)), 0o755); err != nil {
			return err
		}
		if err := os.WriteFile(filepath.Join(root, f), []byte(content), 0o644); err != nil {
			return err
		}
	}
	return nil
}

var caseSeq int

// walkIn runs the real walker with cwd = root (names are cwd-relative in the real caller) and
// drains it. Must only be called from one goroutine.
func walkIn(scratch, root string, tc treeCase) (map[string]bool, []string, error) {
	if err := os.Chdir(root); err != nil {
		return nil, nil, err
	}
	defer os.Chdir(scratch)
	config := core.DefaultConfiguration()
	config.Parse.BlacklistDirs = append([]string(nil), tc.Blacklist...)
	config.Parse.ExperimentalDir = append([]string(nil), tc.Experimental...)
	config.Parse.BuildFileName = append([]string(nil), tc.BuildFileName...)
	got := map[string]bool{}
	var raw []string
	for name := range plz.FindAllBuildFiles(config, tc.Start, "") {
		raw = append(raw, name)
		d := filepath.Dir(name)
		if d == "." {
			d = ""
		}
		got[d] = true
	}
	return got, raw, nil
}

// materialise writes the case's tree into a fresh directory under scratch.
func materialise(scratch string, tc treeCase) (string, error) {
	caseSeq++
	root := filepath.Join(scratch, fmt.Sprintf("t%d", caseSeq))
	return root, writeCase(root, tc, nil)
}

// runWalker materialises the case, walks it and removes it again.
func runWalker(scratch string, tc treeCase) (map[string]bool, []string, error) {
	root, err := materialise(scratch, tc)
	defer os.RemoveAll(root)
	if err != nil {
		return nil, nil, err
	}
	return walkIn(scratch, root, tc)
}

type mismatch struct {
	Missing []string `json:"missing,omitempty"` // must-include but not yielded
	Extra   []string `json:"extra,omitempty"`   // yielded but must-exclude / not a package at all
}

func (m mismatch) empty() bool { return len(m.Missing) == 0 && len(m.Extra) == 0 }

func compare(tc treeCase, got map[string]bool) mismatch {
	e := expect(tc)
	var m mismatch
	for d, v := range e.verdicts {
		if v == mustInclude && !got[d] {
			m.Missing = append(m.Missing, d)
		}
	}
	for d := range got {
		v, ok := e.verdicts[d]
		if !ok || v == mustExclude {
			m.Extra = append(m.Extra, d)
		}
	}
	sort.Strings(m.Missing)
	sort.Strings(m.Extra)
	return m
}

// ---------------------------------------------------------------------------------------------
// Shrinking and witness keys.

func removeAt(l []string, i int) []string {
	out := append([]string(nil), l[:i]...)
	return append(out, l[i+1:]...)
}

// shrink greedily removes files, subtrees and configuration entries while a mismatch of the same
// polarity (missing / extra) persists.
func shrink(tc treeCase, wantMissing bool, eval func(treeCase) mismatch) treeCase {
	still := func(c treeCase) bool {
		if c.Start != "" && !contains(c.Dirs, c.Start) {
			return false
		}
		if !startOK(c, c.Start) {
			return false
		}
		m := eval(c)
		if wantMissing {
			return len(m.Missing) > 0
		}
		return len(m.Extra) > 0
	}
	for changed := true; changed; {
		changed = false
		if tc.Start != "" {
			c := tc.clone()
			c.Start = ""
			if still(c) {
				tc, changed = c, true
			}
		}
		for i := 0; i < len(tc.Dirs); i++ {
			d := tc.Dirs[i]
			if d == "" {
				continue
			}
			c := tc.clone()
			c.Dirs, c.Files = nil, nil
			for _, x := range tc.Dirs {
				if !under(x, d) {
					c.Dirs = append(c.Dirs, x)
				}
			}
			for _, x := range tc.Files {
				if !under(x, d) {
					c.Files = append(c.Files, x)
				}
			}
			if still(c) {
				tc, changed = c, true
				i = -1
			}
		}
		for i := 0; i < len(tc.Files); i++ {
			c := tc.clone()
			c.Files = removeAt(tc.Files, i)
			if still(c) {
				tc, changed = c, true
				i--
			}
		}
		for i := 0; i < len(tc.Blacklist); i++ {
			c := tc.clone()
			c.Blacklist = removeAt(tc.Blacklist, i)
			if still(c) {
				tc, changed = c, true
				i--
			}
		}
		for i := 0; i < len(tc.Experimental); i++ {
			c := tc.clone()
			c.Experimental = removeAt(tc.Experimental, i)
			if still(c) {
				tc, changed = c, true
				i--
			}
		}
		for i := 0; i < len(tc.BuildFileName) && len(tc.BuildFileName) > 1; i++ {
			c := tc.clone()
			c.BuildFileName = removeAt(tc.BuildFileName, i)
			if still(c) {
				tc, changed = c, true
				i--
			}
		}
	}
	return tc
}

func strictStringPrefix(p, entry string) bool { // entry is a string prefix of p but not a component prefix
	return strings.HasPrefix(p, entry) && p != entry && !strings.HasPrefix(p, entry+"/")
}

// fileSkip says whether the unchanged walker's rules make a regular file return SkipDir (which loses
// the rest of the directory listing), and names the rule.
func fileSkip(tc treeCase, f string) string {
	base := filepath.Base(f)
	if base == "plz-out" {
		return "file-skips-siblings/named-plz-out"
	}
	if !contains(tc.BuildFileName, base) && contains(tc.Experimental, f) {
		return "file-skips-siblings/named-like-experimental-entry"
	}
	for _, b := range tc.Blacklist {
		if base == b {
			return "file-skips-siblings/named-like-blacklist-entry"
		}
	}
	for _, b := range tc.Blacklist {
		if strings.HasPrefix(f, b) {
			return "file-skips-siblings/blacklist-entry-is-name-prefix"
		}
	}
	return ""
}

func parentOf(p string) string {
	d := filepath.Dir(p)
	if d == "." {
		return ""
	}
	return d
}

// explainMissing follows the walk from the start directory down to the missing package p and names
// the first thing on the way that relates to a configured entry without being a whole-component match.
func explainMissing(tc treeCase, p string) string {
	var chain []string // start ... p
	for q := p; ; q = parentOf(q) {
		chain = append([]string{q}, chain...)
		if q == tc.Start || q == "" {
			break
		}
	}
	earlierFile := func(dir, before string) string {
		for _, f := range tc.Files {
			if parentOf(f) == dir && filepath.Base(f) < before {
				if k := fileSkip(tc, f); k != "" {
					return k
				}
			}
		}
		return ""
	}
	for i, a := range chain {
		if i > 0 {
			if k := earlierFile(chain[i-1], filepath.Base(a)); k != "" {
				return k
			}
		}
		if a == "" {
			continue
		}
		for _, b := range tc.Blacklist {
			if strictStringPrefix(a, b) {
				return "blacklist/entry-is-bare-string-prefix-of-dir"
			}
		}
		for _, e := range tc.Experimental {
			if strictStringPrefix(a, e) {
				return "experimental/entry-is-bare-string-prefix-of-dir"
			}
			if strings.HasSuffix(a, "/"+e) {
				return "experimental/matched-below-root"
			}
		}
	}
	for _, a := range chain {
		for _, comp := range strings.Split(a, "/") {
			if strings.Contains(comp, ".") && !strings.HasPrefix(comp, ".") {
				return "missing/dir-with-dot-inside-name"
			}
			if strings.Contains(comp, "plz-out") && comp != "plz-out" {
				return "missing/dir-name-containing-plz-out"
			}
			for _, b := range tc.Blacklist {
				if comp != b && strings.Contains(comp, b) {
					return "missing/dir-name-containing-blacklist-entry"
				}
			}
		}
	}
	// inside p: something listed before its first build file
	first := ""
	for _, f := range tc.Files {
		if parentOf(f) == p && contains(tc.BuildFileName, filepath.Base(f)) && (first == "" || filepath.Base(f) < first) {
			first = filepath.Base(f)
		}
	}
	if k := earlierFile(p, first); k != "" {
		return k
	}
	return "missing/unexplained"
}

// keyFor names the input class of a mismatch: which list, and how the offending path relates to the
// configured entry.
func keyFor(tc treeCase, m mismatch) string {
	if len(m.Missing) > 0 {
		return explainMissing(tc, m.Missing[0])
	}
	if len(m.Extra) > 0 {
		p := m.Extra[0]
		if !tc.buildDirs()[p] {
			return "extra/not-a-package"
		}
		if !under(p, tc.Start) {
			return "extra/outside-start"
		}
		_, why := classify(tc, p)
		// an expansion rooted at or inside something excluded yielded packages from it
		switch rel := startRelation(tc); {
		case why == "blacklist" && (rel == "start-is-blacklisted-path" || rel == "start-beneath-blacklisted-path" || rel == "start-is-blacklisted-name"):
			return "extra/" + rel + "/yields-packages"
		case (why == "hidden" || why == "plz-out") && rel == "start-is-hidden-or-plz-out":
			return "extra/" + rel + "/yields-packages"
		}
		switch why {
		case "blacklist":
			for _, b := range tc.Blacklist {
				if strings.Contains(b, "/") && under(p, b) {
					return "extra/blacklist-path-entry-not-applied"
				}
			}
			if !contains(tc.Blacklist, filepath.Base(p)) {
				return "extra/blacklist-below-entry-not-applied"
			}
			if strings.Contains(p, "/") {
				return "extra/blacklist-nested-component-not-applied"
			}
			return "extra/blacklist-not-applied"
		case "hidden":
			return "extra/hidden-dir-walked"
		case "plz-out":
			return "extra/plz-out-walked"
		}
		return "extra/unexplained"
	}
	return "none"
}

// ---------------------------------------------------------------------------------------------
// Generator.

var dirPool = []string{
	"out", "output", "outer", "ou", "xout", "out.d",
	"gen", "gen2", "ge",
	"exp", "expo", "ex", "experimental",
	"vendor", "vendored", "third_party", "third",
	"a", "b", "src", "srcs", "lib",
	".hid", ".out", ".git",
	"plz-out", "plz-outs", "xplz-out",
	"BUILD", "build",
}

var buildNames = []string{"BUILD", "BUILD.plz", "BUILD.bazel", "build.plz", "BUILD.txt", "xBUILD", "BUILD~"}

func pick(rng *rand.Rand, l []string) string { return l[rng.Intn(len(l))] }

func genTree(rng *rand.Rand) treeCase {
	var tc treeCase
	tc.BuildFileName = []string{"BUILD", "BUILD.plz"}
	switch rng.Intn(10) {
	case 0:
		tc.BuildFileName = []string{"BUILD.bazel", "BUILD"}
	case 1:
		tc.BuildFileName = []string{"build.plz"}
	}
	pBuild := 0.35 + rng.Float64()*0.6
	maxDepth := 2 + rng.Intn(3)
	var grow func(dir string, depth int)
	grow = func(dir string, depth int) {
		used := map[string]bool{}
		join := func(n string) string {
			if dir == "" {
				return n
			}
			return dir + "/" + n
		}
		// files
		if rng.Float64() < pBuild {
			n := tc.BuildFileName[rng.Intn(len(tc.BuildFileName))]
			if rng.Intn(6) == 0 {
				n = pick(rng, buildNames)
			}
			used[n] = true
			tc.Files = append(tc.Files, join(n))
			if rng.Intn(8) == 0 {
				n2 := pick(rng, buildNames)
				if !used[n2] {
					used[n2] = true
					tc.Files = append(tc.Files, join(n2))
				}
			}
		}
		for k := rng.Intn(3); k > 0; k-- {
			var n string
			switch rng.Intn(6) {
			case 0:
				n = "f.go"
			case 1:
				n = pick(rng, dirPool) + ".txt" // output.txt, gen.txt ...
			case 2:
				n = pick(rng, dirPool) // a plain file named like a directory of the pool (out, vendor, plz-out ...)
				if n == "plz-out" && rng.Intn(4) != 0 {
					n = "plz-out.log"
				}
			case 3:
				n = ".hidden"
			case 4:
				n = "README"
			default:
				n = "z.txt"
			}
			if !used[n] {
				used[n] = true
				tc.Files = append(tc.Files, join(n))
			}
		}
		if depth >= maxDepth {
			return
		}
		nsub := rng.Intn(4)
		if depth == 0 {
			nsub = 2 + rng.Intn(5)
		}
		for k := 0; k < nsub; k++ {
			n := pick(rng, dirPool)
			if used[n] {
				continue
			}
			used[n] = true
			tc.Dirs = append(tc.Dirs, join(n))
			grow(join(n), depth+1)
		}
	}
	grow("", 0)
	sort.Strings(tc.Dirs)
	sort.Strings(tc.Files)
	return tc
}

// genConfig derives blacklist / experimental entries from the tree's own names: exact names, proper
// string prefixes and extensions of names, suffixes, and root-relative paths (and truncated paths).
func genConfig(rng *rand.Rand, tc *treeCase) {
	visible := []string{}
	for _, d := range tc.Dirs {
		if !strings.Contains(d, "plz-out") && !strings.Contains("/"+d, "/.") {
			visible = append(visible, d)
		}
	}
	entry := func(pathLike bool) string {
		if len(visible) == 0 {
			return "out"
		}
		d := pick(rng, visible)
		base := filepath.Base(d)
		switch rng.Intn(8) {
		case 0, 1: // exact component
			if pathLike {
				return d
			}
			return base
		case 2: // proper prefix of a name in the tree (out vs output)
			if len(base) > 1 {
				cut := 1 + rng.Intn(len(base)-1)
				if pathLike {
					return d[:len(d)-len(base)+cut]
				}
				return base[:cut]
			}
			return base
		case 3: // extension of a name (output vs out): must not hide the shorter one
			if pathLike {
				return d + "x"
			}
			return base + "put"
		case 4: // suffix of a name
			if len(base) > 1 {
				return base[1:]
			}
			return base
		case 5: // root-relative path
			return d
		case 6: // truncated root-relative path (a/out vs a/output)
			if len(base) > 1 {
				return d[:len(d)-1]
			}
			return d
		default:
			return pick(rng, []string{"out", "gen", "vendor", "node_modules", "third_party", "o"})
		}
	}
	seen := map[string]bool{}
	// a top-level directory that has subdirectories, blacklisted by its (root-relative) name: the
	// entry under which a deeper start directory exists
	if rng.Intn(3) == 0 {
		var tops []string
		for _, d := range visible {
			if strings.Count(d, "/") == 1 {
				tops = append(tops, d[:strings.Index(d, "/")])
			}
		}
		if len(tops) > 0 {
			b := pick(rng, tops)
			seen[b] = true
			tc.Blacklist = append(tc.Blacklist, b)
		}
	}
	for k := rng.Intn(4); k > 0; k-- {
		b := entry(false)
		if b != "" && !seen[b] && !strings.HasSuffix(b, "/") && !strings.HasPrefix(b, ".") {
			seen[b] = true
			tc.Blacklist = append(tc.Blacklist, b)
		}
	}
	if rng.Intn(2) == 0 {
		for k := 1 + rng.Intn(2); k > 0; k-- {
			e := entry(true)
			if e != "" && !contains(tc.Experimental, e) && !strings.HasSuffix(e, "/") && !strings.HasPrefix(e, ".") {
				tc.Experimental = append(tc.Experimental, e)
			}
		}
	}
	// start directory: the root, any directory of the tree, or (preferred when there is one) a
	// directory at or strictly inside something the configuration or the fixed rules exclude — the
	// expansions a top-down walk from the root never tells anything about.
	tc.Start = ""
	switch rng.Intn(4) {
	case 0:
		var ok []string
		for _, d := range visible {
			if startOK(*tc, d) {
				ok = append(ok, d)
			}
		}
		if len(ok) > 0 {
			tc.Start = pick(rng, ok)
		}
	case 1:
		var inside, beneathPath []string
		for _, d := range tc.Dirs {
			c := *tc
			c.Start = d
			switch rel := startRelation(c); rel {
			case "root", "start-visible":
			case "start-beneath-blacklisted-path":
				beneathPath = append(beneathPath, d)
				inside = append(inside, d)
			default:
				inside = append(inside, d)
			}
		}
		if len(beneathPath) > 0 && rng.Intn(2) == 0 {
			tc.Start = pick(rng, beneathPath)
		} else if len(inside) > 0 {
			tc.Start = pick(rng, inside)
		} else if len(tc.Dirs) > 0 {
			tc.Start = pick(rng, tc.Dirs)
		}
	}
}

// ---------------------------------------------------------------------------------------------

// mk builds a case from file paths (directories are implied).
func mk(start string, blacklist, experimental []string, files ...string) treeCase {
	tc := treeCase{Start: start, Blacklist: blacklist, Experimental: experimental, BuildFileName: []string{"BUILD", "BUILD.plz"}}
	seen := map[string]bool{}
	for _, f := range files {
		if strings.HasSuffix(f, "/") {
			f = strings.TrimSuffix(f, "/") + "/.keep"
		} else {
			tc.Files = append(tc.Files, f)
		}
		for d := parentOf(f); d != "" && !seen[d]; d = parentOf(d) {
			seen[d] = true
			tc.Dirs = append(tc.Dirs, d)
		}
	}
	sort.Strings(tc.Dirs)
	sort.Strings(tc.Files)
	return tc
}

func directed() []treeCase {
	bl := func(s ...string) []string { return s }
	return []treeCase{
		// blacklist entry vs names that merely share its prefix / suffix, top level and nested
		mk("", bl("out"), nil, "BUILD", "out/BUILD", "output/BUILD", "outer/x/BUILD", "out.d/BUILD", "xout/BUILD", "ou/BUILD", "a/BUILD"),
		mk("", bl("out"), nil, "a/out/BUILD", "a/output/BUILD", "a/xout/BUILD", "a/b/out/c/BUILD", "a/b/BUILD"),
		mk("", bl("a/out"), nil, "a/out/BUILD", "a/out/x/BUILD", "a/output/BUILD", "a/outer/x/BUILD", "a/BUILD", "out/BUILD"),
		mk("output", bl("out"), nil, "output/BUILD", "output/x/BUILD", "out/BUILD"),
		mk("a", bl("a/b"), nil, "a/BUILD", "a/b/BUILD", "a/bc/BUILD", "ab/BUILD"),
		mk("", bl("third_party", "node_modules"), nil, "third_party/x/BUILD", "third_party_tools/BUILD", "js/node_modules/p/BUILD", "js/node_modules_cache/BUILD", "js/BUILD"),
		// plain files whose names relate to an entry, followed (in listing order) by packages
		mk("", bl("out"), nil, "output.txt", "src/BUILD", "zz/BUILD", "a/BUILD"),
		mk("", bl("vendor"), nil, "lib/vendor", "lib/zlib/BUILD", "lib/a/BUILD", "lib/BUILD"),
		mk("", nil, nil, "a/plz-out", "a/src/BUILD", "a/b/BUILD"),
		mk("", nil, bl("exp"), "exp", "src/BUILD", "a/BUILD"),
		// experimental entry vs sibling prefix and the same name below the root
		mk("", nil, bl("exp"), "exp/BUILD", "expo/BUILD", "a/exp/BUILD", "ex/BUILD"),
		mk("", nil, bl("a/exp"), "a/exp/BUILD", "a/expo/BUILD", "exp/BUILD", "a/BUILD"),
		// hidden directories and plz-out at several depths, look-alikes that are not
		mk("", nil, nil, ".hid/BUILD", "a/.hid/b/BUILD", "a.b/BUILD", "a/b.c/BUILD", "a/..x/BUILD", "a/BUILD", ".hidden", "a/.hidden"),
		mk("", nil, nil, "plz-out/BUILD", "plz-out/gen/a/BUILD", "a/plz-out/BUILD", "plz-outs/BUILD", "xplz-out/BUILD", "a/plz-out.d/BUILD"),
		// start below the root: siblings sharing the start's prefix stay out
		mk("a", nil, nil, "a/BUILD", "a/b/BUILD", "ab/BUILD", "a.b/BUILD", "b/BUILD", "BUILD"),
		mk("a/b", nil, nil, "a/BUILD", "a/b/c/BUILD.plz", "a/bc/BUILD", "a/b/BUILD"),
		// build file names: both, look-alikes, a directory named like a build file
		mk("", nil, nil, "a/BUILD", "a/BUILD.plz", "b/BUILD.plz", "c/BUILD.bazel", "d/build", "e/BUILD/BUILD", "f/xBUILD", "g/BUILD.txt", "h/BUILD/x"),
		// expansions rooted at or inside an excluded directory (indices 17..): beneath / at a
		// directory blacklisted by root-relative path, at a blacklisted name below the root, beneath
		// one (undecided, but `out` below the start still applies), inside an experimental
		// directory, and subrepo-like inside plz-out
		mk("third_party/go", bl("third_party"), nil, "BUILD", "app/BUILD", "third_party/BUILD", "third_party/go/BUILD", "third_party/go/lib/BUILD", "third_party_tools/go/BUILD"),
		mk("a/out/x", bl("a/out"), nil, "a/out/x/BUILD", "a/out/x/y/BUILD", "a/out/BUILD", "a/output/x/BUILD", "a/BUILD"),
		mk("a/vendor", bl("vendor"), nil, "a/vendor/BUILD", "a/vendor/x/BUILD", "a/vendored/BUILD", "a/BUILD"),
		mk("third_party", bl("third_party"), nil, "third_party/BUILD", "third_party/go/BUILD", "third_party_tools/BUILD"),
		mk("a/vendor/x", bl("vendor", "out"), nil, "a/vendor/x/BUILD", "a/vendor/x/out/BUILD", "a/vendor/x/output/BUILD"),
		mk("exp/a", nil, bl("exp"), "exp/a/BUILD", "exp/a/b/BUILD", "exp/BUILD", "expo/a/BUILD"),
		mk("plz-out/subrepos/s", bl("out"), nil, "plz-out/subrepos/s/BUILD", "plz-out/subrepos/s/out/BUILD", "plz-out/subrepos/s/output/BUILD", "BUILD"),
		mk("third_party/go", bl("third_party/go/lib", "go"), nil, "third_party/go/BUILD", "third_party/go/lib/BUILD", "third_party/go/lib2/BUILD"),
	}
}

func observe(r *lib.Run, tc treeCase, e expectation) (nInc, nExc int) {
	for d, v := range e.verdicts {
		switch v {
		case mustInclude:
			nInc++
		case mustExclude:
			nExc++
			r.Obs("excluded_by_"+e.rule[d], 1)
		default:
			r.Obs("dont_care_packages", 1)
		}
	}
	r.Obs("packages_must_include", int64(nInc))
	r.Obs("packages_must_exclude", int64(nExc))
	// adversarial condition present: some visible directory carries an entry as a bare string prefix
	for _, d := range tc.Dirs {
		if !under(d, tc.Start) {
			continue
		}
		for _, b := range tc.Blacklist {
			if strictStringPrefix(d, b) {
				r.Obs("dirs_with_blacklist_entry_as_bare_string_prefix", 1)
			}
			if strings.HasSuffix(filepath.Base(d), b) && filepath.Base(d) != b {
				r.Obs("dirs_with_blacklist_entry_as_suffix", 1)
			}
		}
		for _, x := range tc.Experimental {
			if strictStringPrefix(d, x) {
				r.Obs("dirs_with_experimental_entry_as_bare_string_prefix", 1)
			}
		}
	}
	return
}

func TestC22(t *testing.T) {
	iplib.Quiet()
	r := lib.Start("C22")
	defer lib.End(t, r)
	r.Rule = "a case = generated tree (dir names from a pool sharing prefixes/suffixes: out/output/outer/ou/xout, exp/expo, plz-out/plz-outs, .hid; BUILD, BUILD.plz and look-alike files; plain files named like pool dirs) x parse config derived from the tree's own names (exact component, proper string prefix, extension, suffix, root-relative path, truncated path) x start dir anywhere in the tree, a quarter of them at or inside a blacklisted / experimental / hidden / plz-out directory; distinct by full case; non-trivial = at least one build-file directory that must not be yielded and either one that must or a start inside an excluded directory"
	r.Assumes = []string{
		"the walker is entered as findOriginalTask enters it: cwd = repo root, FindAllBuildFiles(config, startDir, \"\")",
		"packages at/under an experimental dir and path-like blacklist entries occurring below the root are don't-care (undocumented)",
		"for an expansion rooted below the repo root, a plz-out / hidden ancestor of the start and a bare blacklisted name that is an ancestor of the start below the root are don't-care (subrepos are expanded from inside plz-out; the docs do not say); a start at or beneath a directory blacklisted by root-relative path, or whose own name is blacklisted / hidden / plz-out, must yield nothing",
		"no symlinks are generated (godirwalk does not follow them; the docs do not say)",
	}
	scratch := r.Scratch()
	if err := os.Chdir(scratch); err != nil {
		t.Fatal(err)
	}
	defer os.Chdir("/")

	eval := func(tc treeCase) mismatch {
		got, _, err := runWalker(scratch, tc)
		if err != nil {
			panic(err)
		}
		return compare(tc, got)
	}

	// checkCase runs one case; a mismatch is minimised (at most 3 times per preliminary class, the
	// rest are only counted) and reported under the class of the minimal witness.
	shrunk := map[string]int{}
	checkCase := func(i int, c treeCase, stream, root string) {
		e := expect(c)
		nInc, nExc := observe(r, c, e)
		r.Obs("start/"+startRelation(c), 1)
		rel := startRelation(c)
		insideExcluded := rel != "root" && rel != "start-visible" && rel != "start-in-experimental"
		r.Case(stream+":"+lib.JSON(c), nExc > 0 && (nInc > 0 || insideExcluded))
		r.ObsDistinct("configs", lib.JSON([]any{c.Blacklist, c.Experimental, c.BuildFileName}))
		got, raw, err := walkIn(scratch, root, c)
		if err != nil {
			r.Inconclusive("cannot walk tree: " + err.Error())
			return
		}
		r.Obs("walks", 1)
		r.Obs("build_files_yielded", int64(len(raw)))
		if insideExcluded && nExc > 0 {
			r.Obs("starts_inside_excluded_dir_with_packages_that_must_not_be_yielded", 1)
		}
		if len(raw) > 0 && (rel == "start-beneath-nested-blacklisted-name" || rel == "start-beneath-hidden-or-plz-out") {
			r.Obs("undecided/"+rel+"/yielded_packages", 1) // observed only: the statement does not decide these
		}
		if r.WantSample() && nInc > 0 && nExc > 0 && len(c.Blacklist) > 0 {
			r.Sample(map[string]any{"case": c, "yielded": raw})
		}
		m := compare(c, got)
		if m.empty() {
			return
		}
		for _, polarity := range []bool{true, false} {
			mm := m
			if polarity {
				mm.Extra = nil
			} else {
				mm.Missing = nil
			}
			if mm.empty() {
				continue
			}
			pre := keyFor(c, mm)
			if shrunk[pre] >= 3 && !r.Replaying() {
				r.Obs("mismatching_cases_not_minimised", 1)
				continue
			}
			shrunk[pre]++
			min := shrink(c, polarity, eval)
			mm = eval(min)
			if polarity {
				mm.Extra = nil
			} else {
				mm.Missing = nil
			}
			key := keyFor(min, mm)
			what := fmt.Sprintf("FindAllBuildFiles(start=%q) with blacklistdirs=%q experimentaldir=%q on files %q: missing packages %q, wrongly yielded %q",
				min.Start, min.Blacklist, min.Experimental, min.Files, mm.Missing, mm.Extra)
			r.Violation(key, what, map[string]any{"minimal": min, "minimal_mismatch": mm, "original": c, "original_mismatch": m}, i)
		}
	}

	// Directed sibling-prefix cases: one per relation between a configured entry and a name in the
	// tree, so that every class is exercised at every seed.
	ds := directed()
	r.ForEach("directed", len(ds), 1, func(i int, rng *rand.Rand) {
		root, err := materialise(scratch, ds[i])
		defer os.RemoveAll(root)
		if err != nil {
			r.Inconclusive("cannot materialise tree: " + err.Error())
			return
		}
		checkCase(i, ds[i], "directed", root)
	})

	nTrees := r.Pick(700, 40000)
	r.ForEach("walk", nTrees, 1, func(i int, rng *rand.Rand) {
		tc := genTree(rng)
		root, err := materialise(scratch, tc)
		defer os.RemoveAll(root)
		if err != nil {
			r.Inconclusive("cannot materialise tree: " + err.Error())
			return
		}
		r.Obs("trees", 1)
		r.Obs("tree_dirs", int64(len(tc.Dirs)))
		for k := 0; k < 6; k++ { // several configurations and start directories per tree
			c := tc.clone()
			genConfig(rng, &c)
			if !startOK(c, c.Start) {
				continue
			}
			checkCase(i, c, "walk", root)
		}
	})
	r.RequireObserved("walks", "packages_must_include", "packages_must_exclude", "excluded_by_blacklist", "excluded_by_hidden", "excluded_by_plz-out", "dirs_with_blacklist_entry_as_bare_string_prefix", "start/start-beneath-blacklisted-path", "start/start-is-blacklisted-name", "starts_inside_excluded_dir_with_packages_that_must_not_be_yielded")

	// End-to-end sample: the same reference against `plz query alltargets //start/...`.
	// The first cases are directed ones (sibling prefixes, hidden, plz-out), the rest generated. A
	// mismatch that the in-process walker shows identically on the same tree is reported under the
	// in-process class (it is the same defect seen through the CLI); only a CLI result that differs
	// from both the walker and the reference gets an e2e/ key.
	e2eDirected := []int{0, 1, 6, 12, 13, 14, 17, 19}
	nE2E := r.Pick(16, 300)
	r.ForEach("e2e", nE2E, 1, func(i int, rng *rand.Rand) {
		var c treeCase
		if i < len(e2eDirected) {
			c = ds[e2eDirected[i]]
		} else {
			for tries := 0; tries < 50; tries++ {
				c = genTree(rng)
				genConfig(rng, &c)
				if startOK(c, c.Start) && e2eSafe(c) {
					break
				}
				c = treeCase{}
			}
		}
		if len(c.Files) == 0 {
			return
		}
		root := filepath.Join(scratch, fmt.Sprintf("e2e%d", i), "repo")
		defer os.RemoveAll(filepath.Dir(root))
		got, res, err := runPlz(root, c)
		if err != nil {
			r.Inconclusive(fmt.Sprintf("e2e case %d: %v", i, err))
			return
		}
		r.Obs("e2e_invocations", 1)
		r.Obs("e2e_targets_listed", int64(len(got)))
		m := compare(c, got)
		// the same tree through the walker (also counts the case and reports walker-level mismatches)
		ipGot, _, err := walkIn(scratch, root, c)
		if err != nil {
			r.Inconclusive(fmt.Sprintf("e2e case %d: %v", i, err))
			return
		}
		checkCase(i, c, "e2e", root)
		mIP := compare(c, ipGot)
		if lib.JSON(m) == lib.JSON(mIP) {
			if !m.empty() {
				r.Obs("e2e_mismatches_identical_to_walker", 1)
			}
			return
		}
		r.Obs("e2e_results_differing_from_walker", 1)
		if m.empty() {
			return
		}
		key := "e2e/" + keyFor(c, m)
		r.Violation(key, fmt.Sprintf("plz query alltargets //%s/... with blacklistdirs=%q experimentaldir=%q: missing %q, wrongly listed %q (FindAllBuildFiles on the same tree: missing %q, extra %q)", c.Start, c.Blacklist, c.Experimental, m.Missing, m.Extra, mIP.Missing, mIP.Extra),
			map[string]any{"case": c, "mismatch": m, "walker_mismatch": mIP, "stdout": lib.Tail(res.Stdout, 2000), "stderr": lib.Tail(res.Stderr, 2000)}, i)
	})
	r.RequireObserved("e2e_invocations")
}

// e2eSafe keeps end-to-end cases to ones where plz itself can parse every yielded package without
// tripping over things that are not this property's business.
func e2eSafe(c treeCase) bool {
	for _, d := range c.Dirs {
		// a directory named like a build file makes fs.IsPackage-style lookups ambiguous; leave those to the in-process part
		if contains(c.BuildFileName, filepath.Base(d)) {
			return false
		}
	}
	return true
}

func runPlz(root string, c treeCase) (map[string]bool, lib.PlzResult, error) {
	if err := writeCase(root, c, func(dir string) string { return "filegroup(name = \"t\")\n" }); err != nil {
		return nil, lib.PlzResult{}, err
	}
	var sb strings.Builder
	sb.WriteString(lib.DefaultPlzConfig)
	sb.WriteString("\n[parse]\n")
	for _, b := range c.Blacklist {
		fmt.Fprintf(&sb, "blacklistdirs = %s\n", b)
	}
	for _, e := range c.Experimental {
		fmt.Fprintf(&sb, "experimentaldir = %s\n", e)
	}
	for _, n := range c.BuildFileName {
		fmt.Fprintf(&sb, "buildfilename = %s\n", n)
	}
	if err := os.WriteFile(filepath.Join(root, ".plzconfig"), []byte(sb.String()), 0o644); err != nil {
		return nil, lib.PlzResult{}, err
	}
	pattern := "//" + c.Start + "/..."
	if c.Start == "" {
		pattern = "//..."
	}
	res := lib.PlzCmd{Bin: lib.PlzBin(false), Dir: root, Args: []string{"query", "alltargets", pattern}}.Run()
	if res.TimedOut {
		return nil, res, fmt.Errorf("plz timed out")
	}
	if res.Exit != 0 {
		return nil, res, fmt.Errorf("plz query alltargets %s exited %d: %s", pattern, res.Exit, lib.Tail(res.Stderr, 600))
	}
	got := map[string]bool{}
	for _, line := range strings.Split(res.Stdout, "\n") {
		line = strings.TrimSpace(line)
		if !strings.HasPrefix(line, "//") {
			continue
		}
		pkg := strings.TrimPrefix(line, "//")
		if k := strings.Index(pkg, ":"); k >= 0 {
			pkg = pkg[:k]
		}
		got[pkg] = true
	}
	return got, res, nil
}

// C03 — no-op and cut-off: actions re-run only when their inputs changed.
// Monitor: the action probe (a mkdir marker in every generated command) lists exactly which commands
// ran in each invocation; the oracle allows a command to run only if the target's definition, a
// direct input (source names/contents, or the clean-build outputs of a consumed target) or the
// configuration changed since the target was last built, or its outputs were removed.
package c03

import (
	"fmt"
	"math/rand"
	"path/filepath"
	"strings"
	"testing"
	"time"

	"verifharness/e2e"
	"verifharness/lib"
)

type stepRecord struct {
	Step    int      `json:"step"`
	Edit    e2e.Edit `json:"edit"`
	Started []string `json:"started"`
	Allowed []string `json:"allowed"`
}

func TestC03(t *testing.T) {
	r := lib.Start("C03")
	defer lib.End(t, r)
	r.Rule = "case = one `plz build //...` on a generated repository after a generated edit (commands deliberately absorb some input changes: wc, sort -u, head, const), followed by a second invocation on the untouched tree; distinct by repository state; non-trivial = the edit allowed at least one but not every command to run"
	r.Assumes = []string{"which commands ran is observed through a mkdir marker at the start of every generated command (probe directory emptied between invocations)", "direct-input change is judged on the clean-build outputs (same binary, empty plz-out, no cache, same path) of the consumed targets before and after the edit"}
	bin := lib.PlzBin(false)
	n := r.Pick(40, 1500)
	r.ForEach("history", n, 8, func(i int, rng *rand.Rand) {
		sb := e2e.NewSandbox(filepath.Join(r.Scratch(), fmt.Sprintf("h%d", i)))
		defer lib.RemoveAll(sb.Work)
		state := e2e.Generate(rng, e2e.GenOpts{Tools: true, DirOuts: true, PostBuild: true, AbsorbingTools: true, FilegroupDeps: true})
		state.VLog = sb.VLog
		if err := state.Materialize(sb.Repo); err != nil {
			panic(err)
		}
		history := []*e2e.Repo{state}
		lastFP := map[string]string{} // label -> fingerprint at the last build
		var trail []stepRecord
		steps := 3 + rng.Intn(6)
		for step := 0; step <= steps; step++ {
			edit := e2e.Edit{Kind: "initial"}
			wiped := false
			if step > 0 {
				if rng.Intn(12) == 0 {
					lib.RemoveAll(filepath.Join(sb.Repo, "plz-out"))
					wiped = true
					edit = e2e.Edit{Kind: "wipe-plz-out"}
				} else {
					next, e := e2e.ApplyRandomEdit(rng, state, e2e.EditOpts{AllowRevert: true, History: history, PreferToolSrc: true})
					if err := next.Sync(sb.Repo, state); err != nil {
						panic(err)
					}
					state, edit = next, e
					history = append(history, state)
				}
			}
			args := []string{"build", "-n", fmt.Sprint(1 + rng.Intn(8)), "//..."}
			sb.ResetProbe()
			res := sb.Plz(bin, nil, 120*time.Second, args...)
			probe := sb.ReadProbe()
			clean := sb.CleanBuild(bin, state, nil, args, nil)
			if res.TimedOut || clean.Result.TimedOut {
				r.Inconclusive(fmt.Sprintf("history %d step %d: plz timed out", i, step))
				return
			}
			if clean.Result.Exit != 0 || res.Exit != 0 {
				// C01 decides build failures; here they only make the step undecidable.
				r.Obs("undecided_steps_build_failed", 1)
				return
			}
			// Which commands were allowed to run?
			allowed := map[string]bool{}
			var allowedList []string
			newFP := map[string]string{}
			ncmd := 0
			for _, tg := range state.Targets {
				if !tg.HasCommand() {
					continue
				}
				ncmd++
				fp := e2e.InputFingerprint(state, tg, clean.PerTarget)
				newFP[tg.Label()] = fp
				if wiped || lastFP[tg.Label()] != fp {
					allowed[tg.ID()] = true
					allowedList = append(allowedList, tg.ID())
				}
			}
			lastFP = newFP
			trail = append(trail, stepRecord{step, edit, probe.Started, allowedList})
			r.Case(lib.JSON(state.AllFiles())+edit.Kind, len(allowedList) > 0 && len(allowedList) < ncmd)
			r.Obs("build_steps", 1)
			r.Obs("actions_executed", int64(len(probe.Started)))
			r.Obs("actions_allowed", int64(len(allowedList)))
			r.ObsDistinct("edit_kinds", edit.Kind)
			wit := map[string]any{"trail": trail, "state": state}
			for _, id := range probe.Started {
				if !allowed[id] {
					r.Violation("superfluous-rerun/"+edit.Kind, fmt.Sprintf("command of %s ran after edit %s (%s) although neither its definition nor any direct input changed", id, edit.Kind, edit.Detail), wit, i)
					return
				}
			}
			if len(probe.Started) < len(allowedList) {
				r.Obs("cutoff_or_skipped_allowed_actions", int64(len(allowedList)-len(probe.Started)))
			}
			// No-op: a second invocation on the untouched tree runs nothing.
			sb.ResetProbe()
			res2 := sb.Plz(bin, nil, 120*time.Second, args...)
			p2 := sb.ReadProbe()
			r.Obs("noop_invocations", 1)
			if res2.Exit != 0 {
				wit["stderr"] = lib.Tail(res2.Stderr, 1000)
				r.Violation("noop-build-fails/"+edit.Kind, "second build on an untouched tree fails", wit, i)
				return
			}
			if len(p2.Started) > 0 {
				wit["noop_started"] = p2.Started
				r.Violation("noop-rerun/"+edit.Kind, fmt.Sprintf("re-running plz build on an unchanged tree executed %s (previous edit: %s)", strings.Join(p2.Started, ","), edit.Kind), wit, i)
				return
			}
			if r.WantSample() && step == steps {
				r.Sample(map[string]any{"trail": trail, "targets": len(state.Targets)})
			}
		}
	})
	r.RequireObserved("build_steps", "actions_executed", "noop_invocations")
}

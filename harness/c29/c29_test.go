// C29 — the CAS-backed filesystem view (src/remote/fs) is faithful to its tree.
//
// Monitor: generated REAPI Trees (nested and empty directories, files sharing digests, sibling-prefix
// names, relative symlinks to files/directories/each other, `..` targets inside and beyond the root,
// dangling, absolute and looping symlinks) over an in-memory CAS. Oracles: (a) testing/fstest.TestFS
// (the io/fs contract checker) on trees whose symlinks all resolve; (b) a direct comparison of
// ReadDir / Stat / ReadFile / WalkDir / Open results with the generated tree, for the root view and
// for working-directory views (New(..., wd) and ChangeDir); (c) per-symlink expectations: resolves
// to the right file/directory, or fails with an error. Symlink loops are opened only in child
// processes that log the case id before running it: a loop is a process-fatal stack overflow today.
package c29

import (
	"bytes"
	"context"
	"encoding/json"
	"errors"
	"fmt"
	"io"
	iofs "io/fs"
	"math/rand"
	"os"
	"path"
	"path/filepath"
	"regexp"
	"runtime/debug"
	"sort"
	"strconv"
	"strings"
	"sync/atomic"
	"testing"
	"testing/fstest"
	"time"

	"github.com/bazelbuild/remote-apis-sdks/go/pkg/client"
	"github.com/bazelbuild/remote-apis-sdks/go/pkg/digest"
	pb "github.com/bazelbuild/remote-apis/build/bazel/remote/execution/v2"
	"google.golang.org/protobuf/types/known/wrapperspb"

	remotefs "github.com/thought-machine/please/src/remote/fs"

	"verifharness/iplib"
	"verifharness/lib"
)

// ---------------------------------------------------------------------------------------------
// The generated tree (the model).

const (
	tFile = "file"
	tDir  = "dir"
	tLink = "link"
)

type node struct {
	Name     string  `json:"name"`
	Kind     string  `json:"kind"`
	Content  string  `json:"content,omitempty"`
	Target   string  `json:"target,omitempty"`
	Mode     uint32  `json:"mode,omitempty"` // 0 = no NodeProperties
	Children []*node `json:"children,omitempty"`
}

type treeCase struct {
	Root *node  `json:"root"`
	WD   string `json:"wd"` // working directory of the view ("." or a directory path)
	Via  string `json:"via"` // "new" (New(c, tree, wd)) | "chdir" (New(c, tree, ".").ChangeDir(wd))
	// Listing != 0: the Directory messages do not list their files, subdirectories and symlinks in
	// lexicographic order, and Tree.children is not in traversal order (REAPI asks clients to upload
	// canonical Directories, but nothing makes a Tree that a server returns — or that Please assembles
	// itself for a flattened output_dirs root — sorted, and the view is not documented to need it).
	// Listing%3 == 0: every list reversed; otherwise: every list permuted by a PRNG seeded with Listing.
	// 0 = canonical (sorted) messages. The model stays sorted either way.
	Listing int64 `json:"listing,omitempty"`
}

// names all match \.?n[0-9][a-z0-9.]* so that messages can be abstracted; they include sibling
// prefixes, a hidden name and names with dots.
var namePool = []string{"n0", "n1", "n2", "n0a", "n00", "n1.go", ".n3", "n2.d", "n10"}

func (n *node) child(name string) *node {
	for _, c := range n.Children {
		if c.Name == name {
			return c
		}
	}
	return nil
}

func (n *node) sortRec() {
	sort.Slice(n.Children, func(i, j int) bool { return n.Children[i].Name < n.Children[j].Name })
	for _, c := range n.Children {
		if c.Kind == tDir {
			c.sortRec()
		}
	}
}

// lookup resolves a clean slash path lexically in the model without following symlinks.
func lookup(root *node, p string) *node {
	if p == "." || p == "" {
		return root
	}
	cur := root
	for _, part := range strings.Split(p, "/") {
		if cur == nil || cur.Kind != tDir {
			return nil
		}
		cur = cur.child(part)
	}
	return cur
}

type entry struct {
	Path string
	N    *node
}

func walkModel(n *node, prefix string, out *[]entry) {
	for _, c := range n.Children {
		p := c.Name
		if prefix != "" {
			p = prefix + "/" + c.Name
		}
		*out = append(*out, entry{p, c})
		if c.Kind == tDir {
			walkModel(c, p, out)
		}
	}
}

// Outcome of resolving a symlink in the model.
const (
	rFile     = "file"
	rDir      = "dir"
	rAbsolute = "absolute"
	rEscapes  = "escapes-root"
	rDangling = "dangling"
	rLoop     = "loop"
	rThrough  = "through-symlinked-dir" // the target path has a symlink as an intermediate component: not asserted
)

// resolve follows the symlink at full path p (relative to the tree root) the way a filesystem does.
func resolve(root *node, p string) (string, *node) {
	for hops := 0; hops < 64; hops++ {
		n := lookup(root, p)
		if n == nil {
			// is an intermediate component a symlink?
			parts := strings.Split(p, "/")
			for i := 1; i < len(parts); i++ {
				if m := lookup(root, strings.Join(parts[:i], "/")); m != nil && m.Kind == tLink {
					return rThrough, nil
				}
			}
			return rDangling, nil
		}
		switch n.Kind {
		case tFile:
			return rFile, n
		case tDir:
			return rDir, n
		}
		if path.IsAbs(n.Target) {
			return rAbsolute, nil
		}
		p = path.Join(path.Dir(p), n.Target)
		if p == ".." || strings.HasPrefix(p, "../") {
			return rEscapes, nil
		}
	}
	return rLoop, nil
}

// ---------------------------------------------------------------------------------------------
// Generation.

func genDir(rng *rand.Rand, depth int, budget *int) *node {
	d := &node{Kind: tDir}
	n := rng.Intn(5)
	if depth == 0 {
		n = 1 + rng.Intn(5)
	}
	perm := rng.Perm(len(namePool))
	for i := 0; i < n && i < len(perm) && *budget > 0; i++ {
		*budget--
		name := namePool[perm[i]]
		switch x := rng.Intn(10); {
		case x < 5:
			c := &node{Name: name, Kind: tFile, Content: []string{"", "x", "hello\n", "wibble wibble", strings.Repeat("ab", 300)}[rng.Intn(5)]}
			if rng.Intn(4) > 0 {
				c.Mode = []uint32{0o644, 0o755, 0o600, 0o444}[rng.Intn(4)]
			}
			d.Children = append(d.Children, c)
		case x < 8 && depth < 3:
			c := genDir(rng, depth+1, budget)
			c.Name = name
			if rng.Intn(3) > 0 {
				c.Mode = 0o755
			}
			d.Children = append(d.Children, c)
		default:
			d.Children = append(d.Children, &node{Name: name, Kind: tLink}) // target chosen later
		}
	}
	return d
}

// genTree builds a tree. loops: plant symlink loops / absolute targets (the "hostile" stream).
func genTree(rng *rand.Rand, hostile bool) treeCase {
	budget := 4 + rng.Intn(14)
	root := genDir(rng, 0, &budget)
	root.Name = ""
	root.sortRec()
	var all []entry
	walkModel(root, "", &all)
	var files, dirs, links []entry
	for _, e := range all {
		switch e.N.Kind {
		case tFile:
			files = append(files, e)
		case tDir:
			dirs = append(dirs, e)
		default:
			links = append(links, e)
		}
	}
	rel := func(from, to string) string {
		r, err := filepath.Rel(path.Dir(from), to)
		if err != nil {
			return to
		}
		return r
	}
	for _, l := range links {
		x := rng.Intn(20)
		if !hostile && x >= 14 {
			x = rng.Intn(9)
		}
		switch {
		case x < 5 && len(files) > 0: // a file somewhere in the tree
			l.N.Target = rel(l.Path, files[rng.Intn(len(files))].Path)
		case x < 8 && len(dirs) > 0: // a directory
			l.N.Target = rel(l.Path, dirs[rng.Intn(len(dirs))].Path)
		case x < 9 && len(links) > 1: // another symlink (chains; may form a loop by chance — classified by resolve)
			l.N.Target = rel(l.Path, links[rng.Intn(len(links))].Path)
		case x < 11: // dangling
			l.N.Target = "n9"
		case x < 13: // beyond the root
			l.N.Target = strings.Repeat("../", strings.Count(l.Path, "/")+1+rng.Intn(2)) + "n0"
		case x < 14: // sibling file through a redundant ./ and ..
			if len(files) > 0 {
				f := files[rng.Intn(len(files))].Path
				l.N.Target = "./" + rel(l.Path, f)
			} else {
				l.N.Target = "."
			}
		case x < 16: // absolute
			l.N.Target = []string{"/etc/passwd", "/", "/n0"}[rng.Intn(3)]
		default: // loops are planted below
			l.N.Target = "n9"
		}
	}
	if hostile && len(links) > 0 && rng.Intn(5) < 3 {
		// Plant one loop of length 1-3 over existing links (self link; a<->b; a->b->c->a).
		k := 1 + rng.Intn(3)
		if k > len(links) {
			k = len(links)
		}
		perm := rng.Perm(len(links))[:k]
		for i := range perm {
			from, to := links[perm[i]], links[perm[(i+1)%k]]
			from.N.Target = rel(from.Path, to.Path)
		}
		// and sometimes a link to an ancestor directory (a cycle in the graph, but not a loop for Open)
		if rng.Intn(3) == 0 {
			l := links[rng.Intn(len(links))]
			if r, _ := resolve(root, l.Path); r != rLoop {
				l.N.Target = rel(l.Path, path.Dir(l.Path))
			}
		}
	}
	tc := treeCase{Root: root, WD: ".", Via: "new"}
	if len(dirs) > 0 && rng.Intn(3) == 0 {
		tc.WD = dirs[rng.Intn(len(dirs))].Path
		if rng.Intn(2) == 0 {
			tc.Via = "chdir"
		}
	}
	if rng.Intn(2) == 0 { // drawn last: the tree itself is the same as it would be without this
		tc.Listing = 1 + rng.Int63n(1<<40)
	}
	return tc
}

// ---------------------------------------------------------------------------------------------
// Building the protos and the CAS.

type memCAS struct {
	blobs map[digest.Digest][]byte
	reads int
}

func (c *memCAS) ReadBlob(_ context.Context, d digest.Digest) ([]byte, *client.MovedBytesMetadata, error) {
	c.reads++
	b, ok := c.blobs[d]
	if !ok {
		return nil, nil, fmt.Errorf("blob %s not in CAS", d)
	}
	return b, nil, nil
}

func props(mode uint32) *pb.NodeProperties {
	if mode == 0 {
		return nil
	}
	return &pb.NodeProperties{UnixMode: &wrapperspb.UInt32Value{Value: mode}}
}

// A lister decides the order in which a Directory message lists its entries (nil = the model's sorted order).
type lister struct {
	rng     *rand.Rand
	reverse bool
	order   map[string]string // directory path -> the order of its lists as emitted (for the witness)
}

func newLister(listing int64) *lister {
	if listing == 0 {
		return nil
	}
	return &lister{rng: rand.New(rand.NewSource(listing)), reverse: listing%3 == 0, order: map[string]string{}}
}

func (l *lister) arrange(n int, swap func(i, j int)) {
	if l.reverse {
		for i, j := 0, n-1; i < j; i, j = i+1, j-1 {
			swap(i, j)
		}
		return
	}
	l.rng.Shuffle(n, swap)
}

func buildPB(n *node, cas *memCAS, children *[]*pb.Directory, l *lister, at string) *pb.Directory {
	d := &pb.Directory{NodeProperties: props(n.Mode)}
	if l != nil {
		// the lists are put in their final order before any digest is taken (children are built below, in
		// the permuted order, which also unsorts Tree.children)
		defer func() {
			var o []string
			for _, x := range d.Files {
				o = append(o, x.Name)
			}
			o = append(o, "|")
			for _, x := range d.Directories {
				o = append(o, x.Name+"/")
			}
			o = append(o, "|")
			for _, x := range d.Symlinks {
				o = append(o, x.Name+"@")
			}
			l.order[at] = strings.Join(o, " ")
		}()
		cs := append([]*node(nil), n.Children...)
		l.arrange(len(cs), func(i, j int) { cs[i], cs[j] = cs[j], cs[i] })
		n = &node{Name: n.Name, Kind: n.Kind, Mode: n.Mode, Children: cs}
	}
	for _, c := range n.Children {
		switch c.Kind {
		case tFile:
			dg := digest.NewFromBlob([]byte(c.Content))
			cas.blobs[dg] = []byte(c.Content)
			d.Files = append(d.Files, &pb.FileNode{Name: c.Name, Digest: dg.ToProto(), IsExecutable: c.Mode&0o111 != 0, NodeProperties: props(c.Mode)})
		case tDir:
			sub := buildPB(c, cas, children, l, path.Join(at, c.Name))
			dg, err := digest.NewFromMessage(sub)
			if err != nil {
				panic(err)
			}
			*children = append(*children, sub)
			d.Directories = append(d.Directories, &pb.DirectoryNode{Name: c.Name, Digest: dg.ToProto()})
		case tLink:
			d.Symlinks = append(d.Symlinks, &pb.SymlinkNode{Name: c.Name, Target: c.Target})
		}
	}
	return d
}

func makeFS(tc treeCase) (*remotefs.CASFileSystem, *memCAS) {
	fsys, cas, _ := makeFSListing(tc)
	return fsys, cas
}

// makeFSListing also returns the order in which every Directory message lists its entries ("files | dirs/ | links@").
func makeFSListing(tc treeCase) (*remotefs.CASFileSystem, *memCAS, map[string]string) {
	fsys, cas, l := makeFSWith(tc)
	if l == nil {
		return fsys, cas, nil
	}
	return fsys, cas, l.order
}

func makeFSWith(tc treeCase) (*remotefs.CASFileSystem, *memCAS, *lister) {
	cas := &memCAS{blobs: map[digest.Digest][]byte{}}
	var children []*pb.Directory
	l := newLister(tc.Listing)
	root := buildPB(tc.Root, cas, &children, l, ".")
	tree := &pb.Tree{Root: root, Children: children}
	if l != nil {
		l.arrange(len(children), func(i, j int) { children[i], children[j] = children[j], children[i] })
	}
	if tc.Via == "chdir" {
		return remotefs.New(cas, tree, ".").ChangeDir(tc.WD), cas, l
	}
	return remotefs.New(cas, tree, tc.WD), cas, l
}

// ---------------------------------------------------------------------------------------------
// Oracles. They return findings; the parent turns them into violations.

type finding struct {
	Key  string `json:"key"`
	What string `json:"what"`
}

type result struct {
	Job      int            `json:"job"`
	Findings []finding      `json:"findings"`
	Obs      map[string]int `json:"obs"`
	Hash     string         `json:"hash"`
	Nontriv  bool           `json:"nontrivial"`
}

var nameRe = regexp.MustCompile(`[./\\]*\.?n[0-9][A-Za-z0-9._/\\]*`)
var numRe = regexp.MustCompile(`\b[0-9]+\b`)

// abstract turns one fstest message into a class: paths and numbers removed, first line only
// (plus the mode letters of a mismatch, which say what kind of entry disagrees).
func abstract(msg string) string {
	lines := strings.Split(msg, "\n")
	first := lines[0]
	if i := strings.Index(first, ": "); i >= 0 && (nameRe.MatchString(first[:i]) || first[:i] == ".") {
		first = first[i+2:]
	}
	if m := regexp.MustCompile(`^(\w+)\((.*)\) succeeded, want error$`).FindStringSubmatch(first); m != nil {
		return m[1] + "(invalid path: " + badClass(m[2]) + ") succeeded"
	}
	if strings.Contains(first, "Stat(...) =") || strings.Contains(first, "mismatch") {
		// keep what kind of entry disagrees: the type letters of the Mode=/type fields of both sides
		var kinds []string
		for _, m := range regexp.MustCompile(`(?:Mode=|Type=|type=)(\S)`).FindAllStringSubmatch(msg, -1) {
			kinds = append(kinds, m[1])
		}
		first = strings.TrimSpace(first[:strings.IndexAny(first+"=", "=")])
		first = strings.TrimSuffix(strings.TrimSpace(nameRe.ReplaceAllString(first, "<p>")), ":")
		if strings.Contains(first, "Stat(...)") && len(kinds) == 2 && kinds[0] == "L" && kinds[1] != "L" {
			return "Stat(symlink) describes the link, Open+Stat the target"
		}
		return first + " disagrees, entry kinds " + strings.Join(kinds, " vs ")
	}
	first = strings.ReplaceAll(first, "%!w(<nil>)", "nil")
	first = nameRe.ReplaceAllString(first, "<p>")
	first = numRe.ReplaceAllString(first, "N")
	return first
}

func badClass(b string) string {
	switch {
	case strings.HasPrefix(b, "/"):
		return "leading slash"
	case strings.HasSuffix(b, "/."):
		return "trailing /."
	case strings.Contains(b, "//"):
		return "empty element"
	case strings.Contains(b, "/../"):
		return ".. element"
	case strings.Contains(b, "/./"):
		return ". element"
	case strings.Contains(b, `\`):
		return "backslash"
	}
	return "other"
}

func isNotExist(err error) bool { return err != nil && errors.Is(err, iofs.ErrNotExist) }

// checkCase runs every oracle on one tree.
// phase "main": everything except opening symlink loops; phase "loops": only that (may not return today).
func checkCase(tc treeCase, phase string) (fs []finding, obs map[string]int) {
	obs = map[string]int{}
	add := func(key, what string) {
		for _, f := range fs {
			if f.Key == key {
				return
			}
		}
		fs = append(fs, finding{key, what})
	}
	fsys, cas := makeFS(tc)
	view := lookup(tc.Root, tc.WD)
	var all []entry
	walkModel(view, "", &all)
	full := func(p string) string { return path.Join(tc.WD, p) } // path relative to the tree root

	// Classify the symlinks first; anything that may recurse for ever is opened last.
	linkRes := map[string]string{}
	allResolve := true
	for _, e := range all {
		if e.N.Kind == tLink {
			r, _ := resolve(tc.Root, full(e.Path))
			linkRes[e.Path] = r
			obs["symlink_"+r]++
			if r != rFile && r != rDir {
				allResolve = false
			}
		}
	}
	// fstest also walks outside the view? No: it only walks the view. But links in the whole tree matter only when reached.

	if phase == "loops" {
		for _, e := range all {
			if e.N.Kind == tLink && linkRes[e.Path] == rLoop {
				obs["symlink_loops_opened"]++
				if f, err := fsys.Open(e.Path); err == nil {
					f.Close()
					add("symlink-loop/opens", fmt.Sprintf("Open(%q) (-> %q) succeeded on a symlink loop", e.Path, e.N.Target))
				}
				if _, err := iofs.ReadFile(fsys, e.Path); err == nil {
					add("symlink-loop/opens", fmt.Sprintf("fs.ReadFile(%q) succeeded on a symlink loop", e.Path))
				}
				if _, err := iofs.ReadDir(fsys, e.Path); err == nil {
					add("symlink-loop/opens", fmt.Sprintf("fs.ReadDir(%q) succeeded on a symlink loop", e.Path))
				}
			}
		}
		return fs, obs
	}

	// (b) direct comparison, per directory.
	dirs := []entry{{".", view}}
	for _, e := range all {
		if e.N.Kind == tDir {
			dirs = append(dirs, e)
		}
	}
	for _, d := range dirs {
		obs["dirs_listed"]++
		var want []string
		for _, c := range d.N.Children {
			k := "-"
			if c.Kind == tDir {
				k = "d"
			} else if c.Kind == tLink {
				k = "L"
			}
			want = append(want, k+c.Name)
		}
		sort.Slice(want, func(i, j int) bool { return want[i][1:] < want[j][1:] })
		ents, err := iofs.ReadDir(fsys, d.Path)
		if err != nil {
			add("readdir/error-on-existing-directory", fmt.Sprintf("fs.ReadDir(%q): %v", d.Path, err))
			continue
		}
		var got []string
		for _, e := range ents {
			k := "-"
			if e.Type()&iofs.ModeDir != 0 {
				k = "d"
			} else if e.Type()&iofs.ModeSymlink != 0 {
				k = "L"
			} else if e.Type() != 0 {
				k = "?"
			}
			got = append(got, k+e.Name())
		}
		if strings.Join(got, " ") != strings.Join(want, " ") {
			cls := "readdir/entries-differ-from-tree"
			miss := map[string]bool{}
			for _, w := range want {
				miss[w] = true
			}
			for _, g := range got {
				delete(miss, g)
			}
			if len(got) < len(want) && len(miss) > 0 {
				kinds := map[string]bool{}
				for m := range miss {
					kinds[map[byte]string{'-': "file", 'd': "directory", 'L': "symlink"}[m[0]]] = true
				}
				var ks []string
				for k := range kinds {
					ks = append(ks, k)
				}
				sort.Strings(ks)
				cls = "readdir/missing-" + strings.Join(ks, "+")
			}
			add(cls, fmt.Sprintf("fs.ReadDir(%q) = %v, the tree has %v", d.Path, got, want))
		}
		// Paged reads must add up to the same list and end with io.EOF.
		if f, err := fsys.Open(d.Path); err == nil {
			if rd, ok := f.(iofs.ReadDirFile); ok {
				var paged []string
				eof := false
				for i := 0; i < len(want)+3; i++ {
					l, err := rd.ReadDir(1)
					for _, e := range l {
						paged = append(paged, e.Name())
					}
					if err == io.EOF {
						eof = true
						break
					}
					if err != nil {
						break
					}
					if len(l) == 0 {
						break
					}
				}
				var wn []string
				for _, w := range want {
					wn = append(wn, w[1:])
				}
				sort.Strings(paged)
				if len(paged) > len(wn) {
					add("readdir-paged/position-or-EOF-wrong", fmt.Sprintf("Open(%q) then ReadDir(1) repeatedly returned %v for a directory holding %v", d.Path, paged, wn))
				} else if strings.Join(paged, " ") != strings.Join(wn, " ") {
					add("readdir-paged/entries-differ-from-tree", fmt.Sprintf("Open(%q) then ReadDir(1) repeatedly returned %v for a directory holding %v", d.Path, paged, wn))
				} else if !eof {
					add("readdir-paged/position-or-EOF-wrong", fmt.Sprintf("Open(%q): ReadDir(1) never returned io.EOF", d.Path))
				}
			} else {
				add("open-dir/not-a-ReadDirFile", fmt.Sprintf("Open(%q) returned %T", d.Path, f))
			}
			f.Close()
		} else {
			add("open/error-on-existing-directory", fmt.Sprintf("Open(%q): %v", d.Path, err))
		}
		if st, err := iofs.Stat(fsys, d.Path); err != nil {
			add("stat/error-on-existing-directory", fmt.Sprintf("fs.Stat(%q): %v", d.Path, err))
		} else if !st.IsDir() {
			add("stat/directory-not-IsDir", fmt.Sprintf("fs.Stat(%q).IsDir() is false", d.Path))
		} else if d.N.Mode != 0 && d.Path != "." && uint32(st.Mode().Perm()) != d.N.Mode&0o777 {
			add("stat/directory-wrong-permissions", fmt.Sprintf("fs.Stat(%q).Mode() = %v, the tree says %o", d.Path, st.Mode(), d.N.Mode))
		}
	}

	// Files: content, size, mode.
	for _, e := range all {
		if e.N.Kind != tFile {
			continue
		}
		obs["files_read"]++
		b, err := iofs.ReadFile(fsys, e.Path)
		if err != nil {
			add("readfile/error-on-existing-file", fmt.Sprintf("fs.ReadFile(%q): %v", e.Path, err))
		} else if string(b) != e.N.Content {
			add("readfile/wrong-content", fmt.Sprintf("fs.ReadFile(%q) = %q, the tree says %q", e.Path, trunc(string(b)), trunc(e.N.Content)))
		}
		for _, how := range []string{"fs.Stat", "Open+Stat"} {
			var st iofs.FileInfo
			var err error
			if how == "fs.Stat" {
				st, err = iofs.Stat(fsys, e.Path)
			} else {
				var f iofs.File
				if f, err = fsys.Open(e.Path); err == nil {
					st, err = f.Stat()
					f.Close()
				}
			}
			switch {
			case err != nil:
				add("stat/error-on-existing-file", fmt.Sprintf("%s(%q): %v", how, e.Path, err))
			case st.Size() != int64(len(e.N.Content)):
				add("stat/wrong-size", fmt.Sprintf("%s(%q).Size() = %d, the file has %d bytes", how, e.Path, st.Size(), len(e.N.Content)))
			case !st.Mode().IsRegular():
				add("stat/file-not-regular", fmt.Sprintf("%s(%q).Mode() = %v", how, e.Path, st.Mode()))
			case st.Name() != e.N.Name:
				add("stat/wrong-name", fmt.Sprintf("%s(%q).Name() = %q", how, e.Path, st.Name()))
			case e.N.Mode != 0 && uint32(st.Mode().Perm()) != e.N.Mode:
				add("stat/file-wrong-permissions", fmt.Sprintf("%s(%q).Mode() = %v, the tree says %o", how, e.Path, st.Mode(), e.N.Mode))
			}
		}
	}

	// Paths that are not in the tree must not exist: sibling-prefix names, a file used as a directory,
	// a name one level too deep or too shallow.
	exists := map[string]bool{".": true}
	for _, e := range all {
		exists[e.Path] = true
	}
	var probes []string
	for _, e := range all {
		probes = append(probes, e.Path+"x", e.Path[:len(e.Path)-1], path.Join(path.Dir(e.Path), "n9"))
		if e.N.Kind == tFile {
			probes = append(probes, e.Path+"/n0", e.Path+"/"+e.N.Name)
		}
		if e.N.Kind == tDir {
			for _, c := range e.N.Children {
				probes = append(probes, path.Join(path.Dir(e.Path), c.Name)) // child name looked up in the parent
			}
		}
	}
	for _, p := range probes {
		if p == "" || exists[p] || !iofs.ValidPath(p) {
			continue
		}
		// a path below a symlink is "through a symlinked dir": not asserted
		through := false
		parts := strings.Split(p, "/")
		for i := 1; i < len(parts); i++ {
			if n := lookup(view, strings.Join(parts[:i], "/")); n != nil && n.Kind == tLink {
				through = true
			}
		}
		if through {
			continue
		}
		obs["absent_paths_probed"]++
		kind := "absent-name"
		if n := lookup(view, path.Dir(p)); n != nil && n.Kind == tFile {
			kind = "file-used-as-directory"
		}
		if f, err := fsys.Open(p); err == nil {
			f.Close()
			add("open/succeeds-on-"+kind, fmt.Sprintf("Open(%q) succeeded, the tree has no such path", p))
		} else if !isNotExist(err) {
			add("open/absent-path-error-is-not-ErrNotExist", fmt.Sprintf("Open(%q): %v", p, err))
		}
		if _, err := iofs.Stat(fsys, p); err == nil {
			add("stat/succeeds-on-"+kind, fmt.Sprintf("fs.Stat(%q) succeeded, the tree has no such path", p))
		}
	}

	// WalkDir sees exactly the tree (symlinks are not followed by WalkDir).
	var walked []string
	werr := iofs.WalkDir(fsys, ".", func(p string, d iofs.DirEntry, err error) error {
		if err != nil {
			return err
		}
		if p != "." {
			walked = append(walked, p)
		}
		return nil
	})
	var wantWalk []string
	for _, e := range all {
		wantWalk = append(wantWalk, e.Path)
	}
	sort.Strings(wantWalk)
	sort.Strings(walked)
	if werr != nil {
		add("walkdir/error", fmt.Sprintf("fs.WalkDir: %v", werr))
	} else if strings.Join(walked, " ") != strings.Join(wantWalk, " ") {
		add("walkdir/differs-from-tree", fmt.Sprintf("fs.WalkDir visited %v, the tree is %v", walked, wantWalk))
	}
	obs["entries_walked"] += len(walked)

	// (a) the io/fs contract checker, when it can be applied (it opens every symlink).
	if allResolve {
		obs["fstest_runs"]++
		var expected []string
		for _, e := range all {
			expected = append(expected, e.Path)
		}
		if err := fstest.TestFS(fsys, expected...); err != nil {
			for _, m := range splitErrors(err) {
				add("fstest/"+abstract(m), "testing/fstest.TestFS: "+trunc(m))
			}
		}
	}

	// (c) symlinks. Stat of a symlink is covered by fstest; here: what Open gives.
	for _, e := range all {
		if e.N.Kind != tLink {
			continue
		}
		res := linkRes[e.Path]
		_, target := resolve(tc.Root, full(e.Path))
		if res == rLoop {
			obs["symlink_loops_left_to_the_child_phase"]++
			continue
		}
		obs["symlinks_opened"]++
		f, err := fsys.Open(e.Path)
		switch res {
		case rFile:
			if err != nil {
				add("symlink/to-file-does-not-open", fmt.Sprintf("Open(%q) (-> %q): %v", e.Path, e.N.Target, err))
				break
			}
			b, rerr := io.ReadAll(f)
			if rerr != nil || string(b) != target.Content {
				add("symlink/to-file-wrong-content", fmt.Sprintf("Open(%q) (-> %q) reads %q, %v; the target holds %q", e.Path, e.N.Target, trunc(string(b)), rerr, trunc(target.Content)))
			}
		case rDir:
			if err != nil {
				add("symlink/to-directory-does-not-open", fmt.Sprintf("Open(%q) (-> %q): %v", e.Path, e.N.Target, err))
				break
			}
			rd, ok := f.(iofs.ReadDirFile)
			if !ok {
				add("symlink/to-directory-not-a-directory", fmt.Sprintf("Open(%q) (-> %q) returned %T", e.Path, e.N.Target, f))
				break
			}
			l, _ := rd.ReadDir(-1)
			var got, want []string
			for _, x := range l {
				got = append(got, x.Name())
			}
			for _, c := range target.Children {
				want = append(want, c.Name)
			}
			sort.Strings(got)
			if strings.Join(got, " ") != strings.Join(want, " ") {
				add("symlink/to-directory-wrong-listing", fmt.Sprintf("Open(%q) (-> %q) lists %v, the target holds %v", e.Path, e.N.Target, got, want))
			}
		case rThrough:
			obs["symlinks_not_asserted(target_through_symlinked_dir)"]++
		default: // absolute, escapes-root, dangling: must fail
			if err == nil {
				add("symlink/"+res+"-opens", fmt.Sprintf("Open(%q) (-> %q) succeeded although the target is %s", e.Path, e.N.Target, res))
			}
		}
		if f != nil {
			f.Close()
		}
	}
	obs["cas_reads"] += cas.reads
	return fs, obs
}

func trunc(s string) string {
	if len(s) > 300 {
		return s[:300] + "…"
	}
	return s
}

// splitErrors splits fstest's joined error into its individual messages.
func splitErrors(err error) []string {
	var out []string
	var walk func(e error)
	walk = func(e error) {
		if j, ok := e.(interface{ Unwrap() []error }); ok {
			for _, x := range j.Unwrap() {
				walk(x)
			}
			return
		}
		if u := errors.Unwrap(e); u != nil {
			if _, ok := u.(interface{ Unwrap() []error }); ok || strings.HasPrefix(e.Error(), "TestFS found errors") || strings.HasPrefix(e.Error(), "testing fs.Sub") {
				walk(u)
				return
			}
		}
		out = append(out, e.Error())
	}
	walk(err)
	return out
}

// ---------------------------------------------------------------------------------------------
// Child protocol for the loop phase: C29_JOBS="index:seed,..." C29_OUT=<file>. START/DONE lines; a
// START without DONE is a crash.

func hasLoop(tc treeCase) bool { return loopDesc(tc) != "" }

// loopDesc lists the looping symlinks that are visible in the case's view.
func loopDesc(tc treeCase) string {
	var all []entry
	walkModel(lookup(tc.Root, tc.WD), "", &all)
	var s []string
	for _, e := range all {
		if e.N.Kind == tLink {
			if x, _ := resolve(tc.Root, path.Join(tc.WD, e.Path)); x == rLoop {
				s = append(s, e.Path+" -> "+e.N.Target)
			}
		}
	}
	return strings.Join(s, ", ")
}

func TestC29Child(t *testing.T) {
	if !lib.IsChild() {
		return
	}
	iplib.Quiet()
	debug.SetMaxStack(4 << 20) // a runaway recursion on a <20-node tree ends quickly instead of eating 1 GB
	out, err := os.OpenFile(os.Getenv("C29_OUT"), os.O_WRONLY|os.O_CREATE|os.O_APPEND, 0o644)
	if err != nil {
		t.Fatal(err)
	}
	defer out.Close()
	for _, j := range strings.Split(os.Getenv("C29_JOBS"), ",") {
		f := strings.Split(j, ":")
		if len(f) != 2 {
			continue
		}
		idx, _ := strconv.Atoi(f[0])
		seed, _ := strconv.ParseInt(f[1], 10, 64)
		fmt.Fprintf(out, "START %d\n", idx)
		tc := genTree(rand.New(rand.NewSource(seed)), true)
		fs, obs := checkCase(tc, "loops")
		b, _ := json.Marshal(result{Job: idx, Findings: fs, Obs: obs})
		fmt.Fprintf(out, "DONE %d %s\n", idx, b)
	}
}

const (
	batch       = 20
	crashBudget = 8 // once this many loop cases have killed their process, further ones add nothing
)

var crashes atomic.Int64

func hostileCase(r *lib.Run, i int) treeCase { return genTree(r.Rand("hostile", i), true) }

// runLoopBatch opens the symlink loops of the given hostile cases in child processes.
func runLoopBatch(r *lib.Run, b int, jobs []int) {
	outFile := filepath.Join(r.Scratch(), fmt.Sprintf("loops.%d.out", b))
	for len(jobs) > 0 {
		if crashes.Load() >= crashBudget {
			r.Obs("loop_cases_not_run(crash_budget_reached)", int64(len(jobs)))
			return
		}
		var spec []string
		for _, j := range jobs {
			spec = append(spec, fmt.Sprintf("%d:%d", j, r.CaseSeed("hostile", j)))
		}
		os.Remove(outFile)
		res := lib.Child("TestC29Child", []string{"C29_JOBS=" + strings.Join(spec, ","), "C29_OUT=" + outFile}, 600*time.Second)
		r.Obs("child_processes", 1)
		data, _ := os.ReadFile(outFile)
		started, done := -1, map[int]bool{}
		for _, line := range bytes.Split(data, []byte("\n")) {
			f := strings.SplitN(string(line), " ", 3)
			switch {
			case len(f) >= 2 && f[0] == "START":
				started, _ = strconv.Atoi(f[1])
			case len(f) == 3 && f[0] == "DONE":
				var cr result
				if json.Unmarshal([]byte(f[2]), &cr) != nil {
					continue
				}
				done[cr.Job] = true
				r.Obs("loop_cases_completed", 1)
				for k, v := range cr.Obs {
					r.Obs(k, int64(v))
				}
				for _, fd := range cr.Findings {
					r.Violation(fd.Key, fd.What, map[string]any{"case": hostileCase(r, cr.Job), "hostile_case": cr.Job}, b)
				}
			}
		}
		var rest []int
		for _, j := range jobs {
			if !done[j] && j != started {
				rest = append(rest, j)
			}
		}
		if started >= 0 && !done[started] {
			tc := hostileCase(r, started)
			r.Obs("loop_cases_that_killed_the_process", 1)
			r.Obs("symlink_loops_opened", 1)
			wit := map[string]any{"case": tc, "hostile_case": started, "loops": loopDesc(tc), "stderr_head": head(res.Stderr, 3000), "exit": res.Exit, "signal": res.Signal}
			inFS := strings.Contains(res.Stderr, "please/src/remote/fs.")
			switch {
			case res.TimedOut && inFS:
				crashes.Add(1)
				r.Violation("symlink-loop/hang", "opening a symlink loop did not return (watchdog fired; the goroutine dump shows the process inside remote/fs): "+loopDesc(tc), wit, b)
			case res.TimedOut:
				r.Inconclusive(fmt.Sprintf("loops: hostile case %d: child watchdog fired outside remote/fs", started))
			case strings.Contains(res.Stderr, "stack overflow") || strings.Contains(res.Stderr, "stack exceeds"):
				crashes.Add(1)
				r.Violation("symlink-loop/crash", "the process died with a fatal stack overflow (unbounded recursion in CASFileSystem.open) while opening a symlink loop: "+loopDesc(tc), wit, b)
			case inFS:
				crashes.Add(1)
				r.Violation("symlink-loop/process-crash/"+firstFatal(res.Stderr), "the process died inside remote/fs while opening a symlink loop: "+loopDesc(tc), wit, b)
			default:
				r.Inconclusive(fmt.Sprintf("loops: hostile case %d: child died (exit %d) outside remote/fs: %s", started, res.Exit, head(res.Stderr, 300)))
			}
		} else if len(rest) == len(jobs) {
			r.Inconclusive(fmt.Sprintf("loops batch %d: child produced nothing (exit %d): %s", b, res.Exit, head(res.Stderr, 300)))
			return
		}
		jobs = rest
	}
}

func head(s string, n int) string {
	if len(s) > n {
		return s[:n]
	}
	return s
}

func firstFatal(s string) string {
	for _, l := range strings.Split(s, "\n") {
		if strings.HasPrefix(l, "panic:") || strings.HasPrefix(l, "fatal error:") {
			return numRe.ReplaceAllString(l, "N")
		}
	}
	return "unknown"
}

// inProcess runs the main phase of one case in this process.
func inProcess(r *lib.Run, stream string, i int, tc treeCase) {
	var all []entry
	walkModel(tc.Root, "", &all)
	r.Case(stream+"/"+lib.JSON(tc), len(all) >= 3)
	r.Obs("trees_checked", 1)
	if tc.WD != "." {
		r.Obs("views_from_a_subdirectory", 1)
	}
	fs, obs := checkCase(tc, "main")
	for k, v := range obs {
		r.Obs(k, int64(v))
	}
	wit := map[string]any{"case": tc}
	if tc.Listing != 0 {
		r.Obs("trees_with_unsorted_directory_messages", 1)
		_, _, order := makeFSListing(tc)
		wit["directory_messages_list (files | dirs/ | symlinks@)"] = order
		for _, o := range order {
			if f := strings.Split(o, "|"); len(f) == 3 && !sort.StringsAreSorted(strings.Fields(f[1])) {
				r.Obs("directory_messages_with_subdirectories_out_of_order", 1)
			}
		}
		if len(fs) > 0 {
			// a finding that the same tree does not produce when its messages are canonical belongs to the
			// class "the view depends on the order in which a Directory lists its entries"
			canon := tc
			canon.Listing = 0
			cfs, _ := checkCase(canon, "main")
			sorted := map[string]bool{}
			for _, fd := range cfs {
				sorted[fd.Key] = true
			}
			for k := range fs {
				if !sorted[fs[k].Key] {
					fs[k].Key += "@unsorted-directory-message"
					fs[k].What += " — the Tree's Directory messages list their entries out of lexicographic order (see the witness); the same tree with sorted messages does not show this"
				}
			}
		}
	}
	for _, fd := range fs {
		r.Violation(fd.Key, fd.What, wit, i)
	}
	if r.WantSample() && len(all) >= 5 && obs["symlink_file"]+obs["symlink_dir"] > 0 {
		r.Sample(tc)
	}
}

func TestC29(t *testing.T) {
	if lib.IsChild() {
		return
	}
	iplib.Quiet()
	r := lib.Start("C29")
	defer lib.End(t, r)
	r.Rule = "seeded REAPI Trees of 4-17 entries, depth <=3, names with sibling prefixes/hidden/dotted, files sharing digests, empty directories, symlinks to files, directories, other symlinks, dangling, beyond the root; stream 'hostile' additionally plants symlink loops of length 1-3, links to ancestors and absolute targets; a third of the cases view the tree from a sub-directory (New(...,wd) or ChangeDir); in half of the cases the Directory messages list files, subdirectories and symlinks out of order (all reversed, or permuted) and Tree.children is permuted. Distinct by tree+view; non-trivial = at least 3 entries"
	r.Assumes = []string{
		"the in-memory CAS returns exactly the generated blobs",
		"a Tree is any well-formed pb.Tree: the order in which a Directory message lists its entries carries no meaning, so the view must be the same for sorted and unsorted messages (ReadDirFile.ReadDir order is never asserted; fs.ReadDir / WalkDir sort themselves)",
		"testing/fstest.TestFS of the Go toolchain is the io/fs contract; it is applied only to views whose symlinks all resolve inside the tree (it opens every symlink)",
		"paths that pass through a symlinked directory are not asserted (the statement does not say whether the view resolves them)",
		"symlink loops are opened in child processes only (START/DONE log); a child that dies with 'stack overflow' in remote/fs frames is the crash the statement forbids",
	}
	nTrees := r.Pick(3000, 150000)
	nHostile := r.Pick(900, 45000)
	r.ForEach("trees", nTrees, 6, func(i int, rng *rand.Rand) { inProcess(r, "trees", i, genTree(rng, false)) })
	r.ForEach("hostile", nHostile, 6, func(i int, rng *rand.Rand) { inProcess(r, "hostile", i, genTree(rng, true)) })
	// The loop phase: which hostile cases have a loop is a function of the case index alone (replayable).
	var loopJobs []int
	for i := 0; i < nHostile; i++ {
		if hasLoop(hostileCase(r, i)) {
			loopJobs = append(loopJobs, i)
		}
	}
	r.Obs("hostile_cases_with_a_symlink_loop", int64(len(loopJobs)))
	nb := (len(loopJobs) + batch - 1) / batch
	r.ForEach("loops", nb, 4, func(b int, _ *rand.Rand) {
		runLoopBatch(r, b, loopJobs[b*batch:min((b+1)*batch, len(loopJobs))])
	})
	r.RequireObserved("trees_checked", "fstest_runs", "files_read", "symlinks_opened", "symlink_loops_opened", "absent_paths_probed", "symlink_absolute", "symlink_escapes-root", "views_from_a_subdirectory", "trees_with_unsorted_directory_messages", "directory_messages_with_subdirectories_out_of_order")
}

package lib

import (
	"fmt"
	"os"
	"path/filepath"
	"strconv"
	"strings"
	"syscall"
	"time"
)

type procStat struct {
	ppid  int
	state string
	ticks int64
}

func readStat(pid int) (procStat, bool) {
	b, err := os.ReadFile(fmt.Sprintf("/proc/%d/stat", pid))
	if err != nil {
		return procStat{}, false
	}
	s := string(b)
	i := strings.LastIndexByte(s, ')')
	if i < 0 {
		return procStat{}, false
	}
	f := strings.Fields(s[i+1:])
	if len(f) < 13 {
		return procStat{}, false
	}
	ppid, _ := strconv.Atoi(f[1])
	ut, _ := strconv.ParseInt(f[11], 10, 64)
	st, _ := strconv.ParseInt(f[12], 10, 64)
	return procStat{ppid: ppid, state: f[0], ticks: ut + st}, true
}

// Descendants returns the live (non-zombie) descendants of pid.
func Descendants(pid int) []int {
	ents, _ := os.ReadDir("/proc")
	parent := map[int]int{}
	state := map[int]string{}
	for _, e := range ents {
		p, err := strconv.Atoi(e.Name())
		if err != nil {
			continue
		}
		if st, ok := readStat(p); ok {
			parent[p] = st.ppid
			state[p] = st.state
		}
	}
	var out []int
	for p := range parent {
		for q := parent[p]; q > 1; q = parent[q] {
			if q == pid {
				if state[p] != "Z" {
					out = append(out, p)
				}
				break
			}
		}
	}
	return out
}

// QuiescenceReport samples a process tree twice, two seconds apart, asks the process for a goroutine
// dump (SIGQUIT) and classifies: "hang" when there are no live children and no CPU progress,
// otherwise "busy". The verdict string starts with one of those words.
func QuiescenceReport(pid int) string {
	sample := func() (int64, int) {
		total := int64(0)
		if st, ok := readStat(pid); ok {
			total += st.ticks
		}
		kids := Descendants(pid)
		for _, k := range kids {
			if st, ok := readStat(k); ok {
				total += st.ticks
			}
		}
		return total, len(kids)
	}
	t1, k1 := sample()
	time.Sleep(2 * time.Second)
	t2, k2 := sample()
	syscall.Kill(pid, syscall.SIGQUIT)
	time.Sleep(300 * time.Millisecond)
	verdict := "busy"
	if k1 == 0 && k2 == 0 && t2-t1 <= 2 {
		verdict = "hang"
	}
	return fmt.Sprintf("%s: cpu ticks %d->%d, live descendants %d->%d", verdict, t1, t2, k1, k2)
}

// ProcsWithEnv returns the pids of live (non-zombie) processes whose environment contains the given
// KEY=VALUE marker. Immune to pid reuse.
func ProcsWithEnv(marker string) []int {
	var out []int
	files, _ := filepath.Glob("/proc/[0-9]*/environ")
	for _, f := range files {
		b, err := os.ReadFile(f)
		if err != nil {
			continue
		}
		found := false
		for _, kv := range strings.Split(string(b), "\x00") {
			if kv == marker {
				found = true
				break
			}
		}
		if !found {
			continue
		}
		pid, _ := strconv.Atoi(filepath.Base(filepath.Dir(f)))
		if st, ok := readStat(pid); ok && st.state != "Z" {
			out = append(out, pid)
		}
	}
	return out
}

// ProcsWithCwdUnder returns the pids of live (non-zombie) processes whose working directory is dir or below it.
func ProcsWithCwdUnder(dir string) []int {
	var out []int
	links, _ := filepath.Glob("/proc/[0-9]*/cwd")
	for _, l := range links {
		t, err := os.Readlink(l)
		if err != nil {
			continue
		}
		t = strings.TrimSuffix(t, " (deleted)")
		if t == dir || strings.HasPrefix(t, dir+"/") {
			pid, _ := strconv.Atoi(filepath.Base(filepath.Dir(l)))
			if st, ok := readStat(pid); ok && st.state != "Z" && pid != os.Getpid() {
				out = append(out, pid)
			}
		}
	}
	return out
}

// WaitNoProcsUnder waits (bounded) until no live process has its working directory under dir; it
// returns the stragglers (after SIGKILLing them) if the bound is exceeded.
func WaitNoProcsUnder(dir string, bound time.Duration) []int {
	deadline := time.Now().Add(bound)
	for {
		p := ProcsWithCwdUnder(dir)
		if len(p) == 0 {
			return nil
		}
		if time.Now().After(deadline) {
			for _, pid := range p {
				syscall.Kill(pid, syscall.SIGKILL)
			}
			time.Sleep(100 * time.Millisecond)
			return p
		}
		time.Sleep(20 * time.Millisecond)
	}
}

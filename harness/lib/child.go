package lib

import (
	"bytes"
	"context"
	"os"
	"os/exec"
	"syscall"
	"time"
)

// A ChildResult is the outcome of re-executing the current test binary for one batch.
type ChildResult struct {
	Stdout, Stderr string
	Exit           int
	Signal         string
	TimedOut       bool
	Dur            time.Duration
}

// Child re-executes the running test binary with -test.run=^<testName>$ and the given extra
// environment, so that process-fatal errors (stack overflow, concurrent map writes, SIGKILL at a
// crash point) end only that batch. The child sees VERIF_CHILD=1.
func Child(testName string, env []string, timeout time.Duration) ChildResult {
	ctx, cancel := context.WithTimeout(context.Background(), timeout)
	defer cancel()
	cmd := exec.CommandContext(ctx, os.Args[0], "-test.run=^"+testName+"$", "-test.timeout=0", "-test.count=1")
	cmd.Env = append(os.Environ(), "VERIF_CHILD=1", "VERIF_STATUS_FILE=")
	cmd.Env = append(cmd.Env, env...)
	cmd.SysProcAttr = &syscall.SysProcAttr{Setpgid: true}
	cmd.Cancel = func() error {
		syscall.Kill(cmd.Process.Pid, syscall.SIGQUIT) // goroutine dump into stderr
		time.Sleep(500 * time.Millisecond)
		return syscall.Kill(-cmd.Process.Pid, syscall.SIGKILL)
	}
	var so, se bytes.Buffer
	cmd.Stdout, cmd.Stderr = &so, &se
	start := time.Now()
	err := cmd.Run()
	res := ChildResult{Stdout: so.String(), Stderr: se.String(), Dur: time.Since(start)}
	if ctx.Err() != nil {
		res.TimedOut = true
	}
	if err != nil {
		if ee, ok := err.(*exec.ExitError); ok {
			res.Exit = ee.ExitCode()
			if ws, ok := ee.Sys().(syscall.WaitStatus); ok && ws.Signaled() {
				res.Signal = ws.Signal().String()
				res.Exit = 128 + int(ws.Signal())
			}
		} else {
			res.Exit = 127
			res.Stderr += "\n[harness] " + err.Error()
		}
	}
	return res
}

// IsChild reports whether this process is a batch child started by Child.
func IsChild() bool { return os.Getenv("VERIF_CHILD") == "1" }

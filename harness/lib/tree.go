package lib

import (
	"crypto/sha256"
	"encoding/hex"
	"fmt"
	"io"
	"os"
	"path/filepath"
	"sort"
	"strings"
)

// An Entry is one node of a canonical tree listing.
type Entry struct {
	Type string `json:"type"` // file | dir | symlink | other
	Exec bool   `json:"exec,omitempty"`
	Link string `json:"link,omitempty"`
	Sum  string `json:"sum,omitempty"`
	Size int64  `json:"size,omitempty"`
}

// A Snapshot maps relative path to entry. The root itself is listed as ".".
type Snapshot map[string]Entry

// SnapOpts controls what a snapshot records.
type SnapOpts struct {
	NoExec bool                  // do not record executable bits
	Skip   func(rel string) bool // paths (and their subtrees) to leave out
}

// SnapshotPath lists one path (file, symlink or directory, recursively) relative to base.
func SnapshotPath(base, rel string, opts SnapOpts, into Snapshot) error {
	full := filepath.Join(base, rel)
	return filepath.Walk(full, func(p string, info os.FileInfo, err error) error {
		if err != nil {
			return err
		}
		r, _ := filepath.Rel(base, p)
		if opts.Skip != nil && opts.Skip(r) {
			if info.IsDir() {
				return filepath.SkipDir
			}
			return nil
		}
		e := Entry{}
		switch {
		case info.Mode()&os.ModeSymlink != 0:
			e.Type = "symlink"
			e.Link, _ = os.Readlink(p)
		case info.IsDir():
			e.Type = "dir"
		case info.Mode().IsRegular():
			e.Type = "file"
			e.Size = info.Size()
			if !opts.NoExec {
				e.Exec = info.Mode()&0o100 != 0
			}
			f, err := os.Open(p)
			if err != nil {
				return err
			}
			h := sha256.New()
			_, err = io.Copy(h, f)
			f.Close()
			if err != nil {
				return err
			}
			e.Sum = hex.EncodeToString(h.Sum(nil)[:12])
		default:
			e.Type = "other"
		}
		into[r] = e
		return nil
	})
}

// SnapshotTree lists a whole directory; paths are relative to it.
func SnapshotTree(dir string, opts SnapOpts) (Snapshot, error) {
	s := Snapshot{}
	err := SnapshotPath(dir, ".", opts, s)
	return s, err
}

// Diff returns human-readable differences between two snapshots (empty if equal).
func Diff(want, got Snapshot) []string {
	var out []string
	keys := map[string]struct{}{}
	for k := range want {
		keys[k] = struct{}{}
	}
	for k := range got {
		keys[k] = struct{}{}
	}
	ks := make([]string, 0, len(keys))
	for k := range keys {
		ks = append(ks, k)
	}
	sort.Strings(ks)
	for _, k := range ks {
		w, wok := want[k]
		g, gok := got[k]
		switch {
		case !wok:
			out = append(out, fmt.Sprintf("extra %s (%s)", k, g.Type))
		case !gok:
			out = append(out, fmt.Sprintf("missing %s (%s)", k, w.Type))
		case w != g:
			out = append(out, fmt.Sprintf("differs %s: want %+v got %+v", k, w, g))
		}
	}
	return out
}

// Canon renders a snapshot as a canonical string (for hashing / equality).
func (s Snapshot) Canon() string {
	ks := make([]string, 0, len(s))
	for k := range s {
		ks = append(ks, k)
	}
	sort.Strings(ks)
	var sb strings.Builder
	for _, k := range ks {
		e := s[k]
		fmt.Fprintf(&sb, "%q %s %v %q %s\n", k, e.Type, e.Exec, e.Link, e.Sum)
	}
	return sb.String()
}

// WriteTree materialises files (path -> content) under dir. A path ending in "/" makes an empty
// directory; content starting with "->" makes a symlink to the rest; content starting with "#!x"
// marks the file executable.
func WriteTree(dir string, files map[string]string) error {
	paths := make([]string, 0, len(files))
	for p := range files {
		paths = append(paths, p)
	}
	sort.Strings(paths)
	for _, p := range paths {
		c := files[p]
		full := filepath.Join(dir, p)
		if strings.HasSuffix(p, "/") {
			if err := os.MkdirAll(full, 0o755); err != nil {
				return err
			}
			continue
		}
		if err := os.MkdirAll(filepath.Dir(full), 0o755); err != nil {
			return err
		}
		os.Remove(full)
		if strings.HasPrefix(c, "->") {
			if err := os.Symlink(c[2:], full); err != nil {
				return err
			}
			continue
		}
		mode := os.FileMode(0o644)
		if strings.HasPrefix(c, "#!") {
			mode = 0o755
		}
		if err := os.WriteFile(full, []byte(c), mode); err != nil {
			return err
		}
	}
	return nil
}

// CopyTree copies a directory tree (files, dirs, symlinks, modes) skipping rel paths for which skip returns true.
func CopyTree(from, to string, skip func(rel string) bool) error {
	return filepath.Walk(from, func(p string, info os.FileInfo, err error) error {
		if err != nil {
			return err
		}
		rel, _ := filepath.Rel(from, p)
		if skip != nil && rel != "." && skip(rel) {
			if info.IsDir() {
				return filepath.SkipDir
			}
			return nil
		}
		dest := filepath.Join(to, rel)
		switch {
		case info.Mode()&os.ModeSymlink != 0:
			l, err := os.Readlink(p)
			if err != nil {
				return err
			}
			return os.Symlink(l, dest)
		case info.IsDir():
			return os.MkdirAll(dest, 0o755)
		case info.Mode().IsRegular():
			b, err := os.ReadFile(p)
			if err != nil {
				return err
			}
			return os.WriteFile(dest, b, info.Mode().Perm())
		}
		return nil
	})
}

// RemoveAll removes a tree even if it contains read-only directories.
func RemoveAll(dir string) {
	filepath.Walk(dir, func(p string, info os.FileInfo, err error) error {
		if err == nil && info.IsDir() {
			os.Chmod(p, 0o755)
		}
		return nil
	})
	os.RemoveAll(dir)
}

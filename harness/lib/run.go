// Package lib is the shared runtime-monitoring framework: seeded case generation, verdict and
// evidence bookkeeping, known-findings matching and replay files. It imports nothing from Please.
package lib

import (
	"bufio"
	"crypto/sha256"
	"encoding/hex"
	"encoding/json"
	"fmt"
	"math/rand"
	"os"
	"path/filepath"
	"regexp"
	"runtime/debug"
	"sort"
	"strconv"
	"strings"
	"sync"
	"time"
)

// Root is the /verif directory.
func Root() string {
	if r := os.Getenv("VERIF_ROOT"); r != "" {
		return r
	}
	return "/verif"
}

// A Violation is one refutation of the property, identified by a witness key.
type Violation struct {
	Key     string `json:"key"`
	What    string `json:"what"`
	Witness any    `json:"witness"`
	Case    int    `json:"case_index"`
	Stream  string `json:"stream"`
	Replay  string `json:"-"`
	Known   bool   `json:"-"`
}

// A Run is one execution of one property check.
type Run struct {
	ID      string
	Tier    string // quick | thorough
	Seed    int64
	Level   string // exploration | fault_enumeration
	Rule    string
	Assumes []string
	// Exhaustive should be set when the run enumerated a finite space completely.
	Exhaustive bool

	replayPath   string
	replayCase   int
	replayStream string
	replaying    bool
	curStream    string

	mu        sync.Mutex
	evals     int64
	distinct  map[[8]byte]struct{}
	samples   []any
	maxSample int
	observed  map[string]int64
	obsSets   map[string]map[string]struct{}
	viols     map[string]*Violation
	violOrder []string
	inconcl   []string
	known     map[string]string // key -> what
	extra     map[string]any
	start     time.Time
	scratch   string
	finished  bool
}

// Start begins a run of the named property, reading VERIF_SEED, VERIF_TIER and VERIF_REPLAY.
func Start(id string) *Run {
	r := &Run{
		ID:        id,
		Tier:      "quick",
		Level:     "exploration",
		distinct:  map[[8]byte]struct{}{},
		observed:  map[string]int64{},
		obsSets:   map[string]map[string]struct{}{},
		viols:     map[string]*Violation{},
		known:     map[string]string{},
		extra:     map[string]any{},
		start:     time.Now(),
		maxSample: 4,
	}
	if t := os.Getenv("VERIF_TIER"); t == "thorough" {
		r.Tier = "thorough"
	}
	if s := os.Getenv("VERIF_SEED"); s != "" {
		if v, err := strconv.ParseInt(s, 10, 64); err == nil {
			r.Seed = v
		}
	}
	r.loadKnown()
	if p := os.Getenv("VERIF_REPLAY"); p != "" {
		r.replayPath = p
		var rp struct {
			Seed   int64  `json:"seed"`
			Tier   string `json:"tier"`
			Case   int    `json:"case_index"`
			Stream string `json:"stream"`
		}
		if b, err := os.ReadFile(p); err == nil && json.Unmarshal(b, &rp) == nil {
			r.Seed, r.replayCase, r.replayStream, r.replaying = rp.Seed, rp.Case, rp.Stream, true
			if rp.Tier != "" {
				r.Tier = rp.Tier
			}
		} else {
			fmt.Printf("cannot read replay file %s: %v\n", p, err)
		}
	}
	return r
}

// Quick reports whether this is the quick tier.
func (r *Run) Quick() bool { return r.Tier != "thorough" }

// Replaying reports whether a single recorded case is being re-run.
func (r *Run) Replaying() bool { return r.replaying }

// Pick chooses a count by tier. Tiers differ in counts, never in time budgets.
func (r *Run) Pick(quick, thorough int) int {
	n := thorough
	if r.Quick() {
		n = quick
	}
	// VERIF_SCALE is a development aid (never set by registered commands): scales every count.
	if s := os.Getenv("VERIF_SCALE"); s != "" {
		if f, err := strconv.ParseFloat(s, 64); err == nil && f > 0 {
			n = int(float64(n) * f)
			if n < 1 {
				n = 1
			}
		}
	}
	return n
}

func splitmix(x uint64) uint64 {
	x += 0x9E3779B97F4A7C15
	z := x
	z = (z ^ (z >> 30)) * 0xBF58476D1CE4E5B9
	z = (z ^ (z >> 27)) * 0x94D049BB133111EB
	return z ^ (z >> 31)
}

// CaseSeed derives the PRNG seed of case i of the named stream from the run seed alone.
func (r *Run) CaseSeed(stream string, i int) int64 {
	h := sha256.Sum256([]byte(r.ID + "/" + stream))
	x := uint64(r.Seed)
	for k := 0; k < 8; k++ {
		x = x*31 + uint64(h[k])
	}
	return int64(splitmix(splitmix(x) ^ uint64(i)*0xD1342543DE82EF95))
}

// Rand returns the PRNG for case i of a stream; it depends on (seed, property, stream, i) only.
func (r *Run) Rand(stream string, i int) *rand.Rand {
	return rand.New(rand.NewSource(r.CaseSeed(stream, i)))
}

// ForEach runs f for case indices 0..n-1 on the given number of workers (<=1 means sequential).
// In replay mode only the recorded case index runs. Panics inside f are turned into violations.
func (r *Run) ForEach(stream string, n, workers int, f func(i int, rng *rand.Rand)) {
	r.mu.Lock()
	r.curStream = stream
	r.mu.Unlock()
	if r.replaying && r.replayStream != "" && r.replayStream != stream {
		return
	}
	idx := make(chan int)
	var wg sync.WaitGroup
	if workers < 1 {
		workers = 1
	}
	for w := 0; w < workers; w++ {
		wg.Add(1)
		go func() {
			defer wg.Done()
			for i := range idx {
				r.guard(stream, i, func() { f(i, r.Rand(stream, i)) })
			}
		}()
	}
	if r.replaying {
		if r.replayCase < n || n == 0 {
			idx <- r.replayCase
		}
	} else {
		for i := 0; i < n; i++ {
			idx <- i
		}
	}
	close(idx)
	wg.Wait()
}

var pleaseFrame = regexp.MustCompile(`github\.com/thought-machine/please/src/([^\s(]+)`)

func (r *Run) guard(stream string, i int, f func()) {
	defer func() {
		if p := recover(); p != nil {
			st := string(debug.Stack())
			fn := "harness"
			// first please frame after the panic
			if k := strings.Index(st, "panic("); k >= 0 {
				if m := pleaseFrame.FindStringSubmatch(st[k:]); m != nil {
					fn = m[1]
				}
			}
			r.Violation("panic:"+fn, fmt.Sprintf("panic in case %s/%d: %v", stream, i, p), map[string]any{"stack": st}, i)
		}
	}()
	f()
}

// Guard runs f, converting a panic into a violation keyed by the first Please frame.
func (r *Run) Guard(i int, f func()) { r.guard("", i, f) }

// Case counts one evaluated case. hashInput identifies the materialised case (for the distinct
// count); nontrivial says whether it is non-trivial by the property's stated rule.
func (r *Run) Case(hashInput string, nontrivial bool) {
	h := sha256.Sum256([]byte(hashInput))
	var k [8]byte
	copy(k[:], h[:8])
	r.mu.Lock()
	r.evals++
	if nontrivial {
		r.distinct[k] = struct{}{}
	}
	r.mu.Unlock()
}

// Sample keeps a few actual cases for the evidence file.
func (r *Run) Sample(v any) {
	r.mu.Lock()
	if len(r.samples) < r.maxSample {
		r.samples = append(r.samples, v)
	}
	r.mu.Unlock()
}

// WantSample reports whether more samples are wanted (so callers can avoid building them).
func (r *Run) WantSample() bool {
	r.mu.Lock()
	defer r.mu.Unlock()
	return len(r.samples) < r.maxSample
}

// Obs adds n to a named counter of things the monitors observed.
func (r *Run) Obs(name string, n int64) {
	r.mu.Lock()
	r.observed[name] += n
	r.mu.Unlock()
}

// ObsDistinct records a member of a named set; the evidence reports the set's size.
func (r *Run) ObsDistinct(name, member string) {
	r.mu.Lock()
	s := r.obsSets[name]
	if s == nil {
		s = map[string]struct{}{}
		r.obsSets[name] = s
	}
	if len(s) < 1_000_000 {
		s[member] = struct{}{}
	}
	r.mu.Unlock()
}

// Extra attaches a free-form value to the evidence's coverage block.
func (r *Run) Extra(name string, v any) {
	r.mu.Lock()
	r.extra[name] = v
	r.mu.Unlock()
}

// NoteOnce keeps the first text seen under a name in the evidence's coverage block ("notes"): used for
// observations that are not verdicts on this property (e.g. a race report outside the anchored code).
func (r *Run) NoteOnce(name, text string) {
	if len(text) > 4000 {
		text = text[:4000] + "…"
	}
	r.mu.Lock()
	defer r.mu.Unlock()
	notes, _ := r.extra["notes"].(map[string]string)
	if notes == nil {
		notes = map[string]string{}
		r.extra["notes"] = notes
	}
	if _, ok := notes[name]; !ok && len(notes) < 20 {
		notes[name] = text
	}
}

// Inconclusive records that some part of the run could not decide (checker timeout, hook not reached...).
func (r *Run) Inconclusive(reason string) {
	r.mu.Lock()
	if len(r.inconcl) < 50 {
		r.inconcl = append(r.inconcl, reason)
	}
	r.observed["inconclusive"]++
	r.mu.Unlock()
}

// SanitizeKey makes a witness key safe for the known-findings file and file names.
func SanitizeKey(k string) string {
	k = strings.Map(func(c rune) rune {
		if c == ' ' || c == '\t' || c == '\n' {
			return '_'
		}
		return c
	}, k)
	if len(k) > 160 {
		h := sha256.Sum256([]byte(k))
		k = k[:140] + "~" + hex.EncodeToString(h[:6])
	}
	return k
}

// Violation records a refutation under a witness key (a stable name for the specific input class,
// call site or history that fails). The first witness per key is kept and written as a replay file.
func (r *Run) Violation(key, what string, witness any, caseIndex int) {
	key = r.ID + ":" + SanitizeKey(key)
	r.mu.Lock()
	defer r.mu.Unlock()
	r.observed["violating_cases"]++
	if _, ok := r.viols[key]; ok {
		return
	}
	v := &Violation{Key: key, What: what, Witness: witness, Case: caseIndex, Stream: r.curStream}
	_, v.Known = r.known[key]
	r.viols[key] = v
	r.violOrder = append(r.violOrder, key)
}

func (r *Run) loadKnown() {
	f, err := os.Open(filepath.Join(Root(), "known_findings.txt"))
	if err != nil {
		return
	}
	defer f.Close()
	sc := bufio.NewScanner(f)
	sc.Buffer(make([]byte, 1<<20), 1<<20)
	for sc.Scan() {
		line := strings.TrimSpace(sc.Text())
		// known: property=C16 key=C16:... <what fails>
		if !strings.HasPrefix(line, "known:") {
			continue // "fixed:" entries and comments suppress nothing
		}
		fields := strings.Fields(line)
		var prop, key string
		for _, f := range fields[1:] {
			if strings.HasPrefix(f, "property=") {
				prop = strings.TrimPrefix(f, "property=")
			} else if strings.HasPrefix(f, "key=") {
				key = strings.TrimPrefix(f, "key=")
			}
		}
		if prop == r.ID && key != "" {
			i := strings.Index(line, "key="+key)
			r.known[key] = strings.TrimSpace(line[i+len("key="+key):])
		}
	}
}

// Scratch returns a per-run scratch directory outside /repo and /verif, removed by Finish.
func (r *Run) Scratch() string {
	r.mu.Lock()
	defer r.mu.Unlock()
	if r.scratch == "" {
		base := os.Getenv("VERIF_SCRATCH_BASE")
		if base == "" {
			base = "/tmp"
		}
		d, err := os.MkdirTemp(base, "verif."+r.ID+".")
		if err != nil {
			panic(err)
		}
		r.scratch = d
	}
	return r.scratch
}

func evidenceDir() string {
	if d := os.Getenv("VERIF_EVIDENCE_DIR"); d != "" {
		return d
	}
	return filepath.Join(Root(), "evidence")
}

func replayDir() string {
	if d := os.Getenv("VERIF_REPLAY_DIR"); d != "" {
		return d
	}
	return filepath.Join(Root(), "replays")
}

// Finish writes the evidence file, prints KNOWN-FINDING / VIOLATION / INCONCLUSIVE lines and the
// status file read by the check script, and returns the exit code (0 held, 1 violated, 2 inconclusive).
func (r *Run) Finish() int {
	r.mu.Lock()
	defer r.mu.Unlock()
	if r.finished {
		return 0
	}
	r.finished = true
	if r.scratch != "" && os.Getenv("VERIF_KEEP_SCRATCH") == "" {
		// make everything removable first
		filepath.Walk(r.scratch, func(p string, info os.FileInfo, err error) error {
			if err == nil && info.IsDir() {
				os.Chmod(p, 0o755)
			}
			return nil
		})
		os.RemoveAll(r.scratch)
	}
	for name, s := range r.obsSets {
		r.observed["distinct_"+name] = int64(len(s))
	}
	newViol := 0
	sort.Strings(r.violOrder)
	os.MkdirAll(filepath.Join(replayDir(), r.ID), 0o755)
	for _, k := range r.violOrder {
		v := r.viols[k]
		if v.Known {
			fmt.Printf("KNOWN-FINDING: property=%s %s — %s (observed: %s)\n", r.ID, v.Key, r.known[v.Key], oneLine(v.What))
			continue
		}
		newViol++
		if newViol > 20 {
			continue
		}
		name := regexp.MustCompile(`[^A-Za-z0-9._:+-]`).ReplaceAllString(v.Key, "_")
		if len(name) > 120 {
			name = name[:120]
		}
		p := filepath.Join(replayDir(), r.ID, name+".json")
		b, _ := marshalIndent(map[string]any{
			"property": r.ID, "seed": r.Seed, "tier": r.Tier, "case_index": v.Case, "stream": v.Stream,
			"key": v.Key, "what": v.What, "witness": v.Witness,
		})
		os.WriteFile(p, b, 0o644)
		v.Replay = p
		fmt.Printf("VIOLATION property=%s replay=%s\n", r.ID, p)
		fmt.Printf("  key=%s\n  %s\n", v.Key, oneLine(v.What))
	}
	code := 0
	if newViol > 0 {
		code = 1
	}
	nontriv := int64(len(r.distinct))
	if code == 0 && !r.replaying {
		if r.evals == 0 || nontriv < 2 {
			r.inconcl = append(r.inconcl, fmt.Sprintf("too few cases observed (evaluations=%d distinct_nontrivial=%d)", r.evals, nontriv))
			code = 2
		}
	}
	for _, s := range r.inconcl {
		fmt.Printf("INCONCLUSIVE: property=%s %s\n", r.ID, s)
	}
	if code == 0 && len(r.inconcl) > 0 && r.observed["inconclusive_fatal"] > 0 {
		code = 2
	}
	cov := map[string]any{
		"evaluations":         r.evals,
		"distinct_nontrivial": nontriv,
		"rule":                r.Rule,
		"samples":             r.samples,
		"observed":            r.observed,
	}
	if r.Exhaustive {
		cov["exhaustive"] = true
	}
	if len(r.inconcl) > 0 {
		cov["inconclusive"] = r.inconcl
	}
	for k, v := range r.extra {
		cov[k] = v
	}
	if len(r.samples) == 0 {
		cov["samples"] = []any{"(no sample recorded)"}
	}
	known := []string{}
	for _, k := range r.violOrder {
		if r.viols[k].Known {
			known = append(known, k)
		}
	}
	if len(known) > 0 {
		cov["known_findings_observed"] = known
	}
	ev := map[string]any{
		"property_id": r.ID,
		"tier":        r.Tier,
		"seed":        r.Seed,
		"level":       r.Level,
		"coverage":    cov,
		"assumptions": r.Assumes,
		"wall_s":      time.Since(r.start).Seconds(),
		"violations":  newViol,
	}
	if !r.replaying {
		os.MkdirAll(evidenceDir(), 0o755)
		b, err := marshalIndent(ev)
		if err != nil {
			fmt.Printf("cannot encode evidence: %v\n", err)
			code = 2
		} else if err := os.WriteFile(filepath.Join(evidenceDir(), r.ID+".json"), b, 0o644); err != nil {
			fmt.Printf("cannot write evidence: %v\n", err)
			code = 2
		}
	}
	fmt.Printf("SUMMARY property=%s tier=%s seed=%d evaluations=%d distinct_nontrivial=%d violations=%d known=%d inconclusive=%d wall=%.1fs exit=%d\n",
		r.ID, r.Tier, r.Seed, r.evals, nontriv, newViol, len(known), len(r.inconcl), time.Since(r.start).Seconds(), code)
	if sf := os.Getenv("VERIF_STATUS_FILE"); sf != "" {
		os.WriteFile(sf, []byte(strconv.Itoa(code)), 0o644)
	}
	return code
}

// FatalInconclusive marks the run as undecidable: Finish will exit 2 unless a violation was found.
func (r *Run) FatalInconclusive(reason string) {
	r.Inconclusive(reason)
	r.Obs("inconclusive_fatal", 1)
}

// RequireObserved makes the run inconclusive (exit 2) if a monitor saw nothing of what it exists to see.
func (r *Run) RequireObserved(names ...string) {
	for _, n := range names {
		r.mu.Lock()
		v := r.observed[n]
		if s, ok := r.obsSets[n]; ok {
			v = int64(len(s))
		}
		r.mu.Unlock()
		if v == 0 && !r.replaying {
			r.FatalInconclusive("monitor observed nothing for: " + n)
		}
	}
}

func oneLine(s string) string {
	s = strings.ReplaceAll(s, "\n", " ⏎ ")
	if len(s) > 600 {
		s = s[:600] + "…"
	}
	return s
}

// Hash returns a short hex hash of the given parts, for case identity.
func Hash(parts ...string) string {
	h := sha256.New()
	for _, p := range parts {
		fmt.Fprintf(h, "%d:%s|", len(p), p)
	}
	return hex.EncodeToString(h.Sum(nil)[:10])
}

// JSON renders a value as compact JSON (for hashing and witnesses).
func JSON(v any) string {
	b, err := json.Marshal(v)
	if err != nil {
		return fmt.Sprintf("%#v", v)
	}
	return string(b)
}

// End finishes the run and fails the Go test when the verdict is not "held".
func End(t interface{ Fail() }, r *Run) {
	if r.Finish() != 0 {
		t.Fail()
	}
}

func marshalIndent(v any) ([]byte, error) {
	var buf strings.Builder
	enc := json.NewEncoder(&buf)
	enc.SetEscapeHTML(false)
	enc.SetIndent("", " ")
	if err := enc.Encode(v); err != nil {
		return nil, err
	}
	return []byte(buf.String()), nil
}

package lib

import (
	"os"
	"path/filepath"
	"regexp"
	"sort"
	"strings"
)

var raceFrame = regexp.MustCompile(`^\s{2}(\S+)\(`)

// OwnRaceLogPrefix returns the log_path prefix configured in GORACE for this process ("" if none).
func OwnRaceLogPrefix() string {
	for _, f := range strings.Fields(os.Getenv("GORACE")) {
		if strings.HasPrefix(f, "log_path=") {
			return strings.TrimPrefix(f, "log_path=")
		}
	}
	return ""
}

// A RaceReport is one de-duplicated data race report.
type RaceReport struct {
	Key    string // pair of outermost-interesting frames, line numbers stripped
	Text   string
	Anchor bool // some frame lies in the property's anchor code
}

// ParseRaceLogs reads every file matching prefix* and returns de-duplicated reports. anchors are
// substrings (e.g. "please/src/cmap.") that make a report relevant to the property.
func ParseRaceLogs(prefix string, anchors []string) []RaceReport {
	files, _ := filepath.Glob(prefix + "*")
	seen := map[string]*RaceReport{}
	for _, f := range files {
		b, err := os.ReadFile(f)
		if err != nil {
			continue
		}
		for _, block := range strings.Split(string(b), "==================") {
			if !strings.Contains(block, "WARNING: DATA RACE") {
				continue
			}
			// The first function frame after each access header.
			var tops []string
			lines := strings.Split(block, "\n")
			for i, l := range lines {
				if strings.Contains(l, " by goroutine ") || strings.Contains(l, " by main goroutine") {
					if strings.HasPrefix(strings.TrimSpace(l), "Goroutine") {
						continue
					}
					for j := i + 1; j < len(lines) && strings.TrimSpace(lines[j]) != ""; j++ {
						if m := raceFrame.FindStringSubmatch(lines[j]); m != nil && !strings.HasPrefix(m[1], "runtime.") && !strings.HasPrefix(m[1], "sync.") && !strings.HasPrefix(m[1], "sync/atomic.") {
							tops = append(tops, m[1])
							break
						}
					}
				}
			}
			sort.Strings(tops)
			key := strings.Join(tops, "|")
			if key == "" {
				key = "unparsed"
			}
			if _, ok := seen[key]; ok {
				continue
			}
			rep := &RaceReport{Key: key, Text: block}
			for _, a := range anchors {
				if strings.Contains(block, a) {
					rep.Anchor = true
				}
			}
			seen[key] = rep
		}
	}
	out := make([]RaceReport, 0, len(seen))
	for _, r := range seen {
		out = append(out, *r)
	}
	sort.Slice(out, func(i, j int) bool { return out[i].Key < out[j].Key })
	return out
}

// CollectRaces turns race reports whose frames lie in the anchors into violations of this property
// (key "race:<frame pair>"); the rest are counted as observations only.
func (r *Run) CollectRaces(prefix string, anchors []string) {
	if prefix == "" {
		return
	}
	for _, rep := range ParseRaceLogs(prefix, anchors) {
		if rep.Anchor {
			txt := rep.Text
			if len(txt) > 6000 {
				txt = txt[:6000]
			}
			r.Violation("race:"+rep.Key, "data race reported by the Go race detector in anchored code", map[string]any{"report": txt}, -1)
			r.Obs("race_reports_anchored", 1)
		} else {
			r.Obs("race_reports_elsewhere", 1)
		}
	}
}

package lib

import (
	"bytes"
	"context"
	"os"
	"os/exec"
	"path/filepath"
	"strings"
	"syscall"
	"time"
)

// PlzBin returns the path of the plz binary built by the check script from /repo's working tree
// with -tags verif (race selects the -race build).
func PlzBin(race bool) string {
	v := "VERIF_PLZ"
	if race {
		v = "VERIF_PLZ_RACE"
	}
	p := os.Getenv(v)
	if p == "" {
		panic(v + " is not set: run through /verif/check, which builds plz from the working tree")
	}
	return p
}

// A PlzResult is the outcome of one plz invocation.
type PlzResult struct {
	Stdout, Stderr string
	Exit           int
	TimedOut       bool
	Dur            time.Duration
	Pid            int
	Watchdog       string // what OnTimeout reported
}

// DefaultPlzConfig is the .plzconfig every generated repository starts from.
const DefaultPlzConfig = `[please]
selfupdate = false
autoclean = false

[build]
path = /usr/local/bin:/usr/bin:/bin
`

// A PlzCmd describes one plz invocation.
type PlzCmd struct {
	Bin      string
	Dir      string   // repo root
	Args     []string // arguments after the binary name
	Env      []string // extra environment (KEY=VALUE); the base environment is minimal and fixed
	CleanEnv bool     // if set, Env is the complete environment
	Timeout  time.Duration
	Home     string // HOME to use (defaults to <Dir>/../home, created if needed)
	Stdin    string
	// OnTimeout, if set, is called with the pid when the watchdog fires, before the process group is killed
	// (e.g. to sample CPU progress and request a goroutine dump). Its result is stored in PlzResult.Watchdog.
	OnTimeout func(pid int) string
}

// BaseEnv is the fixed, minimal environment plz runs under (so that the invoking shell cannot leak in).
func BaseEnv(home string) []string {
	return []string{
		"PATH=/usr/local/bin:/usr/bin:/bin",
		"HOME=" + home,
		"LANG=C.UTF-8",
		"USER=verif",
		"XDG_CONFIG_DIRS=/nonexistent",
	}
}

// Run executes plz and waits for it. It never returns an error for a non-zero exit; see PlzResult.Exit.
func (c PlzCmd) Run() PlzResult {
	if c.Timeout == 0 {
		c.Timeout = 120 * time.Second
	}
	home := c.Home
	if home == "" {
		home = filepath.Join(filepath.Dir(c.Dir), "home")
	}
	os.MkdirAll(home, 0o755)
	ctx, cancel := context.WithTimeout(context.Background(), c.Timeout)
	defer cancel()
	args := append([]string{"--noupdate", "--plain_output"}, c.Args...)
	cmd := exec.CommandContext(ctx, c.Bin, args...)
	cmd.Dir = c.Dir
	if c.CleanEnv {
		cmd.Env = c.Env
	} else {
		cmd.Env = append(BaseEnv(home), c.Env...)
	}
	cmd.SysProcAttr = &syscall.SysProcAttr{Setpgid: true}
	watchdog := ""
	cmd.Cancel = func() error {
		if c.OnTimeout != nil {
			watchdog = c.OnTimeout(cmd.Process.Pid)
		}
		return syscall.Kill(-cmd.Process.Pid, syscall.SIGKILL)
	}
	var so, se bytes.Buffer
	cmd.Stdout, cmd.Stderr = &so, &se
	if c.Stdin != "" {
		cmd.Stdin = strings.NewReader(c.Stdin)
	}
	start := time.Now()
	err := cmd.Run()
	res := PlzResult{Stdout: so.String(), Stderr: se.String(), Dur: time.Since(start)}
	if cmd.Process != nil {
		res.Pid = cmd.Process.Pid
	}
	if ctx.Err() != nil {
		res.TimedOut = true
		res.Watchdog = watchdog
	}
	if err != nil {
		if ee, ok := err.(*exec.ExitError); ok {
			res.Exit = ee.ExitCode()
			if res.Exit < 0 {
				res.Exit = 128 + int(ee.Sys().(syscall.WaitStatus).Signal())
			}
		} else {
			res.Exit = 127
			res.Stderr += "\n[harness] " + err.Error()
		}
	}
	return res
}

// Tail returns the last n bytes of s (for witnesses).
func Tail(s string, n int) string {
	if len(s) <= n {
		return s
	}
	return "…" + s[len(s)-n:]
}

// Package asplib is the shared in-process plumbing of the C17, C18 and C38 monitors: it evaluates
// BUILD files through the real asp parser/interpreter (parse.InitParser + state.Parser.ParseFile) in
// a scratch repository and reads the values the program exported with
// text_file(name = "v", content = json(...)). The real subinclude() builtin is reached by registering
// an already-built target whose output file exists under plz-out/gen.
package asplib

import (
	"encoding/json"
	"fmt"
	"os"
	"path/filepath"
	"regexp"
	"sort"
	"strings"
	"sync"

	"github.com/thought-machine/please/src/core"
	"github.com/thought-machine/please/src/parse"

	"verifharness/iplib"
)

var (
	initOnce sync.Once
	rootDir  string
	newEnvMu sync.Mutex
)

// Init makes dir the repository root of this process (chdir + core.RepoRoot). Only the first call
// has an effect; it returns the root in use.
func Init(dir string) string {
	initOnce.Do(func() {
		iplib.Quiet()
		root := filepath.Join(dir, "repo")
		if err := os.MkdirAll(root, 0o755); err != nil {
			panic(err)
		}
		if err := os.WriteFile(filepath.Join(root, ".plzconfig"), []byte("[please]\nselfupdate = false\n"), 0o644); err != nil {
			panic(err)
		}
		if err := os.Chdir(root); err != nil {
			panic(err)
		}
		core.RepoRoot = root
		rootDir = root
	})
	return rootDir
}

// WriteBuild writes the BUILD file of a package (relative to the repository root).
func WriteBuild(pkg, content string) {
	mustWrite(filepath.Join(pkg, "BUILD"), content)
}

// WriteDefs writes the output file of the (pretend built) target //pkg:name, i.e.
// plz-out/gen/<pkg>/<name>.build_defs.
func WriteDefs(pkg, name, content string) {
	mustWrite(DefsPath(pkg, name), content)
}

// DefsPath is where //pkg:name's output lives.
func DefsPath(pkg, name string) string {
	return filepath.Join("plz-out/gen", pkg, name+".build_defs")
}

var madeDirs sync.Map

func mustWrite(rel, content string) {
	p := filepath.Join(rootDir, rel)
	dir := filepath.Dir(p)
	if _, ok := madeDirs.Load(dir); !ok {
		if err := os.MkdirAll(dir, 0o755); err != nil {
			panic(err)
		}
		madeDirs.Store(dir, true)
	}
	if err := os.WriteFile(p, []byte(content), 0o644); err != nil {
		panic(err)
	}
}

// RemovePkg removes the files written for the given packages (sources and generated defs).
func RemovePkg(pkgs ...string) {
	for _, p := range pkgs {
		os.RemoveAll(filepath.Join(rootDir, p))
		os.RemoveAll(filepath.Join(rootDir, "plz-out/gen", p))
		madeDirs.Range(func(k, _ any) bool {
			if d := k.(string); strings.HasPrefix(d+"/", filepath.Join(rootDir, p)+"/") || strings.HasPrefix(d+"/", filepath.Join(rootDir, "plz-out/gen", p)+"/") {
				madeDirs.Delete(k)
			}
			return true
		})
	}
}

// An Env is one BuildState with its own parser (and therefore its own subinclude cache).
type Env struct {
	State *core.BuildState
}

// NewEnv returns a fresh state with all builtin rules loaded. tweak may adjust the configuration
// before the parser is created.
func NewEnv(tweak func(*core.Configuration)) *Env {
	config := core.DefaultConfiguration()
	config.Please.NumThreads = 8
	config.Parse.NumThreads = 8
	if tweak != nil {
		tweak(config)
	}
	// core.NewBuildState registers an at-exit handler through an unsynchronised package-level slice
	// (Please creates states from one goroutine); serialise it so that the monitors' workers do not
	// introduce a race of their own.
	newEnvMu.Lock()
	state := core.NewBuildState(config)
	newEnvMu.Unlock()
	parse.InitParser(state)
	return &Env{State: state}
}

// AddDefs registers //pkg:name as an already built, publicly visible target whose single output
// is <name>.build_defs, so that subinclude("//pkg:name") reads plz-out/gen/<pkg>/<name>.build_defs.
func (e *Env) AddDefs(pkg, name string) {
	p := e.State.Graph.Package(pkg, "")
	if p == nil {
		p = core.NewPackage(pkg)
		p.Filename = filepath.Join(pkg, "BUILD")
		e.State.Graph.AddPackage(p)
	}
	t := core.NewBuildTarget(core.NewBuildLabel(pkg, name))
	t.AddOutput(name + ".build_defs")
	t.Visibility = []core.BuildLabel{core.WholeGraph[0]}
	t.Command = "true"
	t.SetState(core.Built)
	p.AddTarget(t)
	e.State.Graph.AddTarget(t)
}

// A Result is what one package evaluated to.
type Result struct {
	Err     string            // "" when the file was accepted
	Export  string            // content of text_file "v" ("" if not defined)
	Targets map[string]string // name -> canonical attribute dump
}

// Key renders the result canonically (for equality).
func (r Result) Key() string {
	names := make([]string, 0, len(r.Targets))
	for n := range r.Targets {
		names = append(names, n)
	}
	sort.Strings(names)
	var sb strings.Builder
	sb.WriteString("err=" + r.Err + "\nexport=" + r.Export + "\n")
	for _, n := range names {
		sb.WriteString(n + ": " + r.Targets[n] + "\n")
	}
	return sb.String()
}

var posRe = regexp.MustCompile(`(?m)^[^\s:]+:\d+:\d+: `)

// NormErr reduces an interpreter error to its message: source positions and the stack of frames
// are irrelevant to the properties (only "same error").
func NormErr(err error) string {
	if err == nil {
		return ""
	}
	s := err.Error()
	// The message of the innermost error comes first; later lines are source context.
	if i := strings.IndexByte(s, '\n'); i >= 0 {
		s = s[:i]
	}
	s = posRe.ReplaceAllString(s, "")
	if s == "" {
		s = "error"
	}
	return s
}

// Parse evaluates <pkg>/BUILD on this state and returns what it produced. Panics escaping the
// interpreter are returned as errors prefixed "PANIC:".
func (e *Env) Parse(pkg string) (res Result) {
	return e.ParseFile(pkg, filepath.Join(pkg, "BUILD"))
}

// ParseFile evaluates the given file as the BUILD file of package pkg.
func (e *Env) ParseFile(pkg, filename string) (res Result) {
	p := core.NewPackage(pkg)
	p.Filename = filename
	defer func() {
		if r := recover(); r != nil {
			res.Err = fmt.Sprintf("PANIC: %v", r)
		}
	}()
	label := core.NewBuildLabel(pkg, "all")
	err := e.State.Parser.ParseFile(p, &label, &core.OriginalTarget, core.ParseModeNormal, nil, filename)
	res.Err = NormErr(err)
	res.Targets = map[string]string{}
	for _, t := range p.AllTargets() {
		if t.Label.Name == "v" {
			res.Export = t.FileContent
			continue
		}
		res.Targets[t.Label.Name] = DumpTarget(t)
	}
	return res
}

// ParseSource evaluates src as the BUILD file of package pkg without touching the disk (the real
// Parser.ParseReader entry point; the file name used in messages is <pkg>/BUILD).
func (e *Env) ParseSource(pkg, src string) (res Result) {
	p := core.NewPackage(pkg)
	p.Filename = filepath.Join(pkg, "BUILD")
	defer func() {
		if r := recover(); r != nil {
			res.Err = fmt.Sprintf("PANIC: %v", r)
		}
	}()
	label := core.NewBuildLabel(pkg, "all")
	err := e.State.Parser.ParseReader(p, strings.NewReader(src), &label, &core.OriginalTarget, core.ParseModeNormal)
	res.Err = NormErr(err)
	res.Targets = map[string]string{}
	for _, t := range p.AllTargets() {
		if t.Label.Name == "v" {
			res.Export = t.FileContent
			continue
		}
		res.Targets[t.Label.Name] = DumpTarget(t)
	}
	return res
}

// RemoveDefs deletes the generated file of //pkg:name.
func RemoveDefs(pkg, name string) {
	os.Remove(filepath.Join(rootDir, DefsPath(pkg, name)))
}

// DumpTarget renders the attributes of a target that BUILD files can set, canonically.
func DumpTarget(t *core.BuildTarget) string {
	m := map[string]any{}
	set := func(k string, v any) {
		switch x := v.(type) {
		case string:
			if x == "" {
				return
			}
		case []string:
			if len(x) == 0 {
				return
			}
		case bool:
			if !x {
				return
			}
		case map[string]string:
			if len(x) == 0 {
				return
			}
		case map[string][]string:
			if len(x) == 0 {
				return
			}
		}
		m[k] = v
	}
	inputs := func(in []core.BuildInput) []string {
		out := make([]string, len(in))
		for i, x := range in {
			out[i] = x.String()
		}
		return out
	}
	labels := func(in []core.BuildLabel) []string {
		out := make([]string, len(in))
		for i, x := range in {
			out[i] = x.String()
		}
		return out
	}
	set("cmd", t.Command)
	set("cmds", t.Commands)
	set("content", t.FileContent)
	set("srcs", inputs(t.Sources))
	named := map[string][]string{}
	for k, v := range t.NamedSources {
		named[k] = inputs(v)
	}
	set("named_srcs", named)
	set("outs", t.DeclaredOutputs())
	set("named_outs", t.DeclaredNamedOutputs())
	set("optional_outs", t.OptionalOutputs)
	set("data", inputs(t.Data))
	set("tools", inputs(t.Tools))
	set("deps", labels(t.DeclaredDependencies()))
	set("labels", t.Labels)
	set("visibility", labels(t.Visibility))
	set("licences", t.Licences)
	set("hashes", t.Hashes)
	set("requires", t.Requires)
	set("env", t.Env)
	set("binary", t.IsBinary)
	set("test_only", t.TestOnly)
	set("filegroup", t.IsFilegroup)
	set("test", t.IsTest())
	ods := make([]string, len(t.OutputDirectories))
	for i, d := range t.OutputDirectories {
		ods[i] = string(d)
	}
	set("output_dirs", ods)
	set("entry_points", t.EntryPoints)
	b, err := json.Marshal(m)
	if err != nil {
		return fmt.Sprintf("%#v", m)
	}
	return string(b)
}

// ExportStmt is the statement that exports the named globals as a JSON object through the
// language itself.
func ExportStmt(names ...string) string {
	var sb strings.Builder
	sb.WriteString("text_file(name = \"v\", content = json({")
	for i, n := range names {
		if i > 0 {
			sb.WriteString(", ")
		}
		fmt.Fprintf(&sb, "%q: %s", n, n)
	}
	sb.WriteString("}))\n")
	return sb.String()
}

// JSONEqual compares two JSON texts by value.
func JSONEqual(a, b string) bool {
	if a == b {
		return true
	}
	var x, y any
	if json.Unmarshal([]byte(a), &x) != nil || json.Unmarshal([]byte(b), &y) != nil {
		return false
	}
	ba, _ := json.Marshal(x)
	bb, _ := json.Marshal(y)
	return string(ba) == string(bb)
}

package asplib

import (
	"fmt"
	"math/rand"
	"os"
	"sort"
	"strconv"
	"strings"
)

// Lit renders a Go value (nil, bool, int, string, []any, map[string]any) as a literal of the
// BUILD language. Dict keys are written in sorted order.
func Lit(v any) string {
	switch x := v.(type) {
	case nil:
		return "None"
	case bool:
		if x {
			return "True"
		}
		return "False"
	case int:
		return strconv.Itoa(x)
	case string:
		return StrLit(x)
	case []any:
		parts := make([]string, len(x))
		for i, e := range x {
			parts[i] = Lit(e)
		}
		return "[" + strings.Join(parts, ", ") + "]"
	case map[string]any:
		keys := make([]string, 0, len(x))
		for k := range x {
			keys = append(keys, k)
		}
		sort.Strings(keys)
		parts := make([]string, len(keys))
		for i, k := range keys {
			parts[i] = StrLit(k) + ": " + Lit(x[k])
		}
		return "{" + strings.Join(parts, ", ") + "}"
	}
	panic(fmt.Sprintf("Lit: unsupported %T", v))
}

// StrLit renders a string literal. Only characters that need no escaping in asp are expected
// (the generators never produce quotes, backslashes, braces or control characters).
func StrLit(s string) string {
	return "\"" + s + "\""
}

var identPool = []string{"a", "b", "c", "ab", "ba", "abc", "x", "yz", "k", "zz", "m1", "q_r"}

// Ident returns a short identifier-like string.
func Ident(rng *rand.Rand) string { return identPool[rng.Intn(len(identPool))] }

// DistinctIdents returns n distinct identifier-like strings in random order.
func DistinctIdents(rng *rand.Rand, n int) []string {
	perm := rng.Perm(len(identPool))
	if n > len(perm) {
		n = len(perm)
	}
	out := make([]string, n)
	for i := range out {
		out[i] = identPool[perm[i]]
	}
	return out
}

// SmallInt returns an int from a pool that mixes interned (0..99), negative and large values and
// produces duplicates often.
func SmallInt(rng *rand.Rand) int {
	pool := []int{0, 1, 2, 3, 3, 5, 7, 9, 10, 42, 99, 100, 101, 1000, -1, -2, -7, 1 << 40}
	return pool[rng.Intn(len(pool))]
}

// Indent prefixes every non-empty line with four spaces.
func Indent(s string) string {
	lines := strings.Split(strings.TrimRight(s, "\n"), "\n")
	for i, l := range lines {
		if l != "" {
			lines[i] = "    " + l
		}
	}
	return strings.Join(lines, "\n") + "\n"
}

// Dev divides a case count by $VERIF_DEV_DIV (development aid only; never set by ./check).
func Dev(n int) int {
	if d, err := strconv.Atoi(os.Getenv("VERIF_DEV_DIV")); err == nil && d > 1 {
		n /= d
		if n < 1 {
			n = 1
		}
	}
	return n
}

#!/usr/bin/env python3
"""Re-runs the checks listed in seeded/<id>/meta.json against the seeded change (scripts/seeded.sh run <id>) and
records the outcome in meta.json (caught_by, violation_keys_with_patch, last_run). usage: seeded_refresh.py <id> [note]"""
import json, re, subprocess, sys, datetime
sid = sys.argv[1]
note = sys.argv[2] if len(sys.argv) > 2 else None
p = '/verif/seeded/%s/meta.json' % sid
m = json.load(open(p))
out = subprocess.run(['/verif/scripts/seeded.sh', 'run', sid], capture_output=True, text=True).stdout
caught, keys, cur = [], {}, None
for line in out.splitlines():
    mm = re.match(r'SEEDED \S+ check=(\S+) tier=\S+ rc=(\d+) violations=(\d+)', line)
    if mm:
        cur = mm.group(1)
        if mm.group(2) == '1' and int(mm.group(3)) > 0:
            caught.append(cur)
        continue
    mm = re.match(r'\s+key=(\S+)', line)
    if mm and cur:
        keys.setdefault(cur, []).append(mm.group(1))
was = m.get('caught_by') or []
m['caught_by'] = caught
m['violation_keys_with_patch'] = keys
m['last_run'] = {'head': subprocess.run(['git', '-C', '/repo', 'rev-parse', '--short', 'HEAD'], capture_output=True, text=True).stdout.strip(),
                 'verif': subprocess.run(['git', '-C', '/verif', 'rev-parse', '--short', 'HEAD'], capture_output=True, text=True).stdout.strip()}
if note:
    m['history'] = note
elif not was and caught and 'history' not in m:
    m['history'] = 'Survived the first version of the monitor; caught in the quick tier after the monitor was strengthened (see DESIGN.md §7.6).'
json.dump(m, open(p, 'w'), indent=1)
print(sid, 'caught_by', caught, {k: v[:3] for k, v in keys.items()})

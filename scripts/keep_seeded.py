#!/usr/bin/env python3
"""Keeps a verified candidate change under /verif/seeded/<id>/ (patch.diff, the demonstration, meta.json).
usage: keep_seeded.py <candidate-dir> <seeded-id> <check-id>[,<check-id>...] [demo-package-dir]
Refuses unless <candidate-dir>/verify.log (written by scripts/verify_seeded.sh) ends in RESULT ... VALID."""
import json, os, re, shutil, sys
cand, sid, checks = sys.argv[1], sys.argv[2], sys.argv[3].split(',')
demodir = sys.argv[4] if len(sys.argv) > 4 else ''
log = open(os.path.join(cand, 'verify.log')).read()
m = re.search(r'^RESULT \S+ (VALID|REJECTED).*$', log, re.M)
if not m or m.group(1) != 'VALID':
    sys.exit('not verified: ' + (m.group(0) if m else 'no RESULT line'))
caught = re.search(r'caught by:(.*)$', m.group(0)).group(1).split()
caught = [c for c in caught if c != 'NONE']
src = json.load(open(os.path.join(cand, 'meta.json')))
dst = os.path.join('/verif/seeded', sid)
os.makedirs(dst, exist_ok=True)
shutil.copy(os.path.join(cand, 'patch.diff'), dst)
demos = [f for f in os.listdir(cand) if f.startswith('zz_demo_') or f.endswith('.sh')]
for f in demos:
    shutil.copy(os.path.join(cand, f), dst)
shutil.copy(os.path.join(cand, 'verify.log'), dst)
keys = {}
for c in checks:
    p = os.path.join(cand, 'check.%s.out' % c)
    if os.path.exists(p):
        keys[c] = re.findall(r'^\s+key=(\S+)', open(p, errors='replace').read(), re.M)[:12]
meta = {
    'id': sid,
    'property': src.get('property'),
    'breaks': src.get('summary'),
    'needs_to_manifest': src.get('needs'),
    'demonstration': {'files': demos, 'how': src.get('demo'), 'go_test_package_dir': demodir or None},
    'author_ran': src.get('ran'),
    'confirmed_by': 'scripts/verify_seeded.sh (scratch worktree of /repo HEAD: patch applies, compiles plain and -tags verif, pinned suite passes, demonstration passes without and fails with the patch); see verify.log',
    'checks': checks,
    'caught_by': caught,
    'violation_keys_with_patch': keys,
}
json.dump(meta, open(os.path.join(dst, 'meta.json'), 'w'), indent=1)
print('kept', dst, 'caught_by', caught)

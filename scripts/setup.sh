#!/bin/bash
# Run once after a fresh restore, offline: warms the Go build cache for plz (plain and race) and the framework.
. /verif/scripts/env.sh
set -e
mkdir -p /verif/.build /verif/evidence /verif/replays
cd /verif/harness && go vet ./lib ./iplib >/dev/null
TAG=$(echo /repo | md5sum | cut -c1-8)
mkdir -p /verif/.build/$TAG
cd /repo && go build -tags verif -o /verif/.build/$TAG/plz-verif ./src
cd /repo && go build -tags verif -race -o /verif/.build/$TAG/plz-verif-race ./src
echo setup ok

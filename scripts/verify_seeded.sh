#!/bin/bash
# Confirms a candidate seeded change before it is kept under /verif/seeded:
#   scripts/verify_seeded.sh <candidate-dir> <seeded-id> <check-id>[,<check-id>...] [demo-package-dir]
# <candidate-dir> holds patch.diff, meta.json and the demonstration (zz_demo_*_test.go to be dropped into
# demo-package-dir of the tree, or demo*.sh taking the plz binary as $1).
# Steps (all in a scratch worktree of /repo HEAD, removed afterwards):
#   1. the patch applies and the tree compiles (plain and -tags verif)
#   2. the pinned suite (BASELINE.json stable_pass) still passes with the patch
#   3. the demonstration fails with the patch and passes without it
#   4. the named checks are run against the patched tree (VERIF_REPO) and the verdicts recorded
# Results are appended to <candidate-dir>/verify.log; on success the directory is copied to /verif/seeded/<id>.
. /verif/scripts/env.sh
cand=${1:?}; id=${2:?}; checks=${3:?}; demodir=${4:-}
log=$cand/verify.log; : > "$log"
say() { echo "$@" | tee -a "$log"; }
wt=/tmp/wt-vs-$id
git -C /repo worktree remove --force "$wt" 2>/dev/null
git -C /repo worktree add -q --detach "$wt" HEAD || exit 2
cleanup() { tag=$(echo "$wt" | md5sum | cut -c1-8); rm -rf "/verif/.build/$tag"; git -C /repo worktree remove --force "$wt" 2>/dev/null; rm -f /tmp/vs-$id-plz; }
trap cleanup EXIT
say "HEAD $(git -C /repo rev-parse --short HEAD)"
demo_go=$(ls "$cand"/zz_demo_*_test.go 2>/dev/null | head -1)
demo_sh=$(ls "$cand"/*.sh 2>/dev/null | head -1)
run_demo() { # $1 = label
  if [ -n "$demo_go" ]; then
    [ -n "$demodir" ] || { say "demo: Go test but no package dir given"; return 2; }
    cp "$demo_go" "$wt/$demodir/"
    ( cd "$wt" && timeout 900 go test -tags verif -vet=off -count=1 -run 'Demo|demo|ZZ|Zz|C[0-9][0-9]' "./$demodir" ) > "$cand/demo.$1.out" 2>&1
    rc=$?
    rm -f "$wt/$demodir/$(basename "$demo_go")"
    return $rc
  elif [ -n "$demo_sh" ]; then
    ( cd "$wt" && go build -o /tmp/vs-$id-plz ./src ) >> "$log" 2>&1 || return 2
    ( cd /tmp && timeout 900 bash "$demo_sh" /tmp/vs-$id-plz ) > "$cand/demo.$1.out" 2>&1
    return $?
  fi
  say "demo: none found"; return 2
}
# 3a. demo without the patch
run_demo without; rc0=$?
say "demo without patch: rc=$rc0"
# 1. apply + compile
if ! git -C "$wt" apply "$cand/patch.diff" 2>>"$log"; then say "RESULT $id: patch does not apply"; exit 1; fi
( cd "$wt" && go build ./... && go build -tags verif -o /dev/null ./src ) >> "$log" 2>&1 || { say "RESULT $id: does not compile"; exit 1; }
say "compiles: yes"
# 3b. demo with the patch
run_demo with; rc1=$?
say "demo with patch: rc=$rc1"
# 2. pinned suite
out=$(mktemp /tmp/vs-$id.XXXX.json)
# one pinned-suite run at a time on this machine: src/cache's tests listen on a fixed port
( flock 9; cd "$wt" && go test -mod=mod -json -vet=off -count=1 -timeout 25m ./... ) 9>/tmp/vs-gotest.lock > "$out" 2>/dev/null
missing=$(python3 - "$out" <<'PY'
import json,sys
passed=set()
for line in open(sys.argv[1]):
    try: e=json.loads(line)
    except Exception: continue
    if e.get('Action')=='pass' and e.get('Test'): passed.add(e['Package']+'::'+e['Test'])
base=json.load(open('/root/.vp/BASELINE.json'))
print(' '.join(t for t in base['stable_pass'] if t not in passed))
PY
)
rm -f "$out"
git -C "$wt" checkout -- src/plzinit/BUILD 2>/dev/null
say "pinned tests missing: ${missing:-none}"
# 4. our checks
caught=""
for c in $(echo "$checks" | tr ',' ' '); do
  o=$(cd /verif && VERIF_REPO=$wt ./check "$c" quick 2>&1); rc=$?
  nv=$(echo "$o" | grep -c '^VIOLATION')
  say "check $c quick: rc=$rc violations=$nv $(echo "$o" | grep -A1 '^VIOLATION' | grep 'key=' | head -4 | tr '\n' ' ')"
  echo "$o" > "$cand/check.$c.out"
  [ "$rc" = 1 ] && [ "$nv" -gt 0 ] && caught="$caught $c"
done
ok=1
[ "$rc0" = 0 ] && [ "$rc1" != 0 ] && [ -z "$missing" ] || ok=0
# a single flaky pinned test under load is re-run once on its own before rejecting
# pinned tests that fail under load (timing tests, port clashes) are re-run per package, alone, before rejecting
if [ "$ok" = 0 ] && [ "$rc0" = 0 ] && [ "$rc1" != 0 ] && [ -n "$missing" ]; then
  pkgs=$(for t in $missing; do echo "${t%%::*}"; done | sort -u)
  if [ "$(echo "$pkgs" | wc -l)" -le 3 ]; then
    out2=$(mktemp /tmp/vs-$id.XXXX.json)
    for pkg in $pkgs; do
      rel=${pkg#github.com/thought-machine/please/}
      ( flock 9; cd "$wt" && go test -mod=mod -json -vet=off -count=1 "./$rel" ) 9>/tmp/vs-gotest.lock >> "$out2" 2>/dev/null
    done
    still=$(python3 - "$out2" $missing <<'PY'
import json,sys
passed=set()
for line in open(sys.argv[1]):
    try: e=json.loads(line)
    except Exception: continue
    if e.get('Action')=='pass' and e.get('Test'): passed.add(e['Package']+'::'+e['Test'])
print(' '.join(t for t in sys.argv[2:] if t not in passed))
PY
)
    rm -f "$out2"
    git -C "$wt" checkout -- src/plzinit/BUILD 2>/dev/null
    say "re-run of the affected packages alone: still failing: ${still:-none}"
    [ -z "$still" ] && ok=1
  fi
fi
if [ "$ok" = 1 ]; then
  say "RESULT $id: VALID (demo passes without, fails with; pinned suite passes); caught by:${caught:- NONE}"
else
  say "RESULT $id: REJECTED (demo without rc=$rc0, with rc=$rc1, missing pinned: ${missing:-none})"
fi

#!/usr/bin/env python3
"""Generates /verif/MANIFEST.json from the table in manifest_table.json and the monitors present in harness/."""
import json, os, subprocess, sys
ROOT = '/verif'
sys.path.insert(0, os.path.join(ROOT, 'scripts'))
from manifest_table import TABLE
# scripts/claimed.txt: one property id per line (+ optional '# comment'); only these are claimed.
claimed = set()
for line in open(os.path.join(ROOT, 'scripts', 'claimed.txt')):
    line = line.split('#')[0].strip()
    if line:
        claimed.add(line)
na_reasons = {}
if os.path.exists(os.path.join(ROOT, 'scripts', 'na_reasons.json')):
    na_reasons = json.load(open(os.path.join(ROOT, 'scripts', 'na_reasons.json')))
table = {k: dict(v, claimed=(k in claimed), na_reason=na_reasons.get(k)) for k, v in TABLE.items()}
props = [json.loads(l) for l in open(os.path.join(ROOT, 'properties.jsonl'))]
checks, na = [], []
for p in props:
    pid = p['id']
    t = table.get(pid, {})
    d = os.path.join(ROOT, 'harness', pid.lower())
    if t.get('claimed') and os.path.isdir(d):
        checks.append({
            'property_id': pid,
            'quick_cmd': './check %s quick' % pid,
            'thorough_cmd': './check %s thorough' % pid,
            'evidence_file': 'evidence/%s.json' % pid,
            'replay_cmd_template': './check %s --replay {path}' % pid,
            'engine': t.get('engine', 'go-monitor'),
            'level_claimed': {'category': t.get('level', 'exploration'), 'text': t['text'], 'design_ref': 'DESIGN.md §3 ' + pid},
            'level_note': t['note'],
            'technique': t['technique'],
        })
    else:
        na.append({'property_id': pid, 'reason': (t.get('na_reason') or 'monitor not yet validated on the current tree (silent at several seeds + mutant detection); no claim is made for this property at this commit')})
hooks = subprocess.run(['git', '-C', '/repo', 'log', '--format=%H %s', '--grep=^verif hooks'], capture_output=True, text=True).stdout.strip().split('\n')
m = {
    'version': 1,
    'setup_cmd': './scripts/setup.sh',
    'hooks': {
        'guard': 'verif',
        'enable': 'go build -tags verif (the check script builds plz and every monitor from /repo with -tags verif; export_verif.go files and src/verifhook/hook.go carry //go:build verif)',
        'baseline_off_cmd': '/verif/scripts/baseline_off.sh',
        'source_commits': [h.split(' ')[0] for h in hooks if h],
        'add_only': True,
    },
    'engines': [
        {'name': 'go-monitor', 'path': 'harness/', 'serves_properties': [c['property_id'] for c in checks],
         'kind_free_text': 'Go test binaries (one package per property, built -race -tags verif against /repo) that drive the real code in-process or the real plz binary end to end, with oracles, trace/history checkers and the Go race detector; shared framework in harness/lib'},
    ],
    'checks': checks,
    'not_applicable': na,
    'notes': 'All checks are runtime monitors (see DESIGN.md; §7 build log, §8 seeded changes). known_findings.txt lists triaged genuine defects (known:) and repaired ones (fixed:). Seeded realistic breaks with demonstrations are under seeded/<id>/; scripts/seeded.sh run <id> re-runs the listed checks against one of them in a scratch worktree.',
}
json.dump(m, open(os.path.join(ROOT, 'MANIFEST.json'), 'w'), indent=1)
print('checks=%d not_applicable=%d' % (len(checks), len(na)))

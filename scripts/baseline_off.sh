#!/bin/bash
# Runs the repository's pinned test suite with the verif guard OFF and compares to BASELINE.json.
. /verif/scripts/env.sh
OUT=$(mktemp /tmp/verif.baseline.XXXXXX.json)
trap 'rm -f $OUT' EXIT
cd /repo
go test -mod=mod -json -vet=off -count=1 -timeout 25m ./... > $OUT 2>/dev/null
# TestInitPleasings appends to this tracked file; put it back so the working tree stays as committed.
git -C /repo checkout -- src/plzinit/BUILD 2>/dev/null
python3 - "$OUT" <<'PY'
import json,sys
passed=set()
for line in open(sys.argv[1]):
    try: e=json.loads(line)
    except Exception: continue
    if e.get('Action')=='pass' and e.get('Test'):
        passed.add(e['Package']+'::'+e['Test'])
base=json.load(open('/root/.vp/BASELINE.json'))
missing=[t for t in base['stable_pass'] if t not in passed]
print("baseline stable_pass=%d passed_now=%d missing=%d"%(len(base['stable_pass']),len(passed),len(missing)))
for m in missing: print("MISSING",m)
sys.exit(1 if missing else 0)
PY

#!/bin/bash
# Runs the registered checks against one seeded change (a realistic break of a property).
#   scripts/seeded.sh run <seeded-id> [tier]      apply seeded/<id>/patch.diff to a scratch worktree of /repo HEAD and run
#                                                 the checks named in meta.json ("checks": ["C01", ...]) against it
#   scripts/seeded.sh all [tier]                  the same for every directory under seeded/
# The worktree lives under /tmp and is removed afterwards (with its build output under /verif/.build/<tag>).
# Exit 0 if every listed check reported a VIOLATION (i.e. the change was caught), 1 otherwise.
. /verif/scripts/env.sh
cmd=${1:?usage}; shift
run_one() {
  local id=$1 tier=${2:-quick}
  local d=/verif/seeded/$id
  [ -f "$d/patch.diff" ] || { echo "no such seeded change: $id"; return 2; }
  local wt=/tmp/wt-seeded-$id
  git -C /repo worktree remove --force "$wt" 2>/dev/null
  git -C /repo worktree add -q --detach "$wt" HEAD || return 2
  if ! git -C "$wt" apply "$d/patch.diff"; then
    echo "SEEDED $id: patch does not apply to /repo HEAD"; git -C /repo worktree remove --force "$wt"; return 2
  fi
  local checks
  checks=$(python3 -c "import json,sys; print(' '.join(json.load(open('$d/meta.json'))['checks']))")
  local ok=0
  for c in $checks; do
    out=$(cd /verif && VERIF_REPO=$wt ./check "$c" "$tier" 2>&1)
    rc=$?
    nviol=$(echo "$out" | grep -c '^VIOLATION')
    echo "SEEDED $id check=$c tier=$tier rc=$rc violations=$nviol"
    echo "$out" | grep -A1 '^VIOLATION' | grep 'key=' | head -5
    [ "$rc" = 1 ] && [ "$nviol" -gt 0 ] || ok=1
  done
  tag=$(echo "$wt" | md5sum | cut -c1-8)
  rm -rf "/verif/.build/$tag"
  git -C /repo worktree remove --force "$wt"
  return $ok
}
case "$cmd" in
  run) run_one "$@" ;;
  all)
    fail=0
    for d in /verif/seeded/*/; do
      id=$(basename "$d")
      run_one "$id" "${1:-quick}" || fail=1
    done
    exit $fail ;;
  *) echo "unknown command $cmd"; exit 2 ;;
esac

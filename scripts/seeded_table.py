#!/usr/bin/env python3
"""Prints the markdown table of seeded changes (for DESIGN.md §8) from /verif/seeded/*/meta.json."""
import json, glob, os
rows = []
for d in sorted(glob.glob('/verif/seeded/*/')):
    m = json.load(open(os.path.join(d, 'meta.json')))
    def short(s, n):
        s = ' '.join((s or '').split())
        return s if len(s) <= n else s[:n - 1] + '…'
    keys = []
    for c, ks in (m.get('violation_keys_with_patch') or {}).items():
        keys += ks[:2]
    rows.append('| %s | %s | %s | %s | %s | %s |' % (
        m['id'], m.get('property'), short(m.get('breaks'), 230).replace('|', '\\|'), short(m.get('needs_to_manifest'), 170).replace('|', '\\|'),
        ', '.join(m.get('caught_by') or []) or '**none**' + (' (' + short(m.get('not_caught_reason'), 120) + ')' if m.get('not_caught_reason') else ''),
        '<br>'.join('`%s`' % k for k in keys[:3]).replace('|', '\\|')))
print('| id | property | what the change does | what it needs to manifest | caught by (quick tier) | example keys |')
print('|---|---|---|---|---|---|')
print('\n'.join(rows))

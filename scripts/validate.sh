#!/bin/bash
# Validates MANIFEST.json and every evidence file against the schemas in /root/.vp.
python3-vt - <<'PY'
import json, glob, jsonschema, sys
ok = True
try:
    jsonschema.validate(json.load(open('/verif/MANIFEST.json')), json.load(open('/root/.vp/MANIFEST.schema.json')))
    print('MANIFEST.json valid')
except Exception as e:
    ok = False; print('MANIFEST.json INVALID:', str(e)[:500])
es = json.load(open('/root/.vp/EVIDENCE.schema.json'))
m = json.load(open('/verif/MANIFEST.json'))
for c in m['checks']:
    f = '/verif/' + c['evidence_file']
    try:
        d = json.load(open(f)); jsonschema.validate(d, es)
        if d['level'] != c['level_claimed']['category']:
            ok = False; print(f, 'level mismatch', d['level'], c['level_claimed']['category'])
    except Exception as e:
        ok = False; print(f, 'INVALID:', str(e)[:300])
ids = [json.loads(l)['id'] for l in open('/verif/properties.jsonl')]
cl = [c['property_id'] for c in m['checks']]; na = [n['property_id'] for n in m.get('not_applicable', [])]
if sorted(cl + na) != sorted(ids):
    ok = False; print('claimed + not_applicable != properties')
print('checks=%d not_applicable=%d' % (len(cl), len(na)))
sys.exit(0 if ok else 1)
PY

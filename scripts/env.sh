# Sourced by every script in /verif: toolchain and offline settings.
export PATH=/root/go/pkg/mod/golang.org/toolchain@v0.0.1-go1.26.1.linux-amd64/bin:$PATH
export GOFLAGS=-mod=mod GOPROXY=off GOTOOLCHAIN=local
export VERIF_ROOT=/verif
